------------------------------ MODULE RangesTrace ------------------------------
(* code -> spec for C20: one event per executed range-for loop: which adaptor, category, length, whether  *)
(* the body wrote through the visited value; the sequence of (index, value) the loop saw and the source    *)
(* afterwards.  The machine is put into the terminal state the event describes and every invariant of      *)
(* Ranges is evaluated on it.                                                                              *)
EXTENDS Ranges, TraceIO
VARIABLE l
Ev == TraceLog[l]
TInit == /\ l = 1 /\ adaptor = "enumerate" /\ cat = "const" /\ src = <<>> /\ write = FALSE /\ handoff = "direct" /\ style = "pre" /\ pc = "start" /\ pos = 0
         /\ visited = <<>> /\ tempAlive = FALSE
TReset == /\ Ev.e = "Reset" /\ l' = l + 1 /\ adaptor' = "enumerate" /\ cat' = "const" /\ src' = <<>> /\ write' = FALSE /\ handoff' = "direct" /\ style' = "pre"
          /\ pc' = "start" /\ pos' = 0 /\ visited' = <<>> /\ tempAlive' = FALSE
TLoop == /\ Ev.e = "Loop" /\ Ev.outcome = "ok" /\ Ev.bad = 0 /\ Ev.leaked = 0
         /\ Len(Ev.after) = Ev.n
         /\ adaptor' = Ev.adaptor /\ cat' = Ev.cat /\ src' = Ev.after /\ write' = Ev.write /\ handoff' = Ev.handoff /\ style' = Ev.style
         /\ visited' = Ev.visited /\ pc' = "done" /\ pos' = Ev.n + 1 /\ tempAlive' = FALSE
         /\ l' = l + 1
TNext == l <= TraceLen /\ (TReset \/ TLoop)
TSpec == TInit /\ [][TNext]_<<vars, l>>
Track == TrackCursor(l)
Report == ReportMatched
=============================================================================
