SPECIFICATION Spec
CONSTANTS
  MaxLen = 4
  Adaptors = {"enumerate", "reverse"}
  Cats = {"lvalue", "const", "rvalue", "crvalue"}
  Styles = {"pre", "post"}
  Handoffs = {"direct", "copy", "move", "assign"}
INVARIANTS VisitsAll WritesLand NoWritesElsewhere TempOutlivesLoop Emit
PROPERTY Terminates
CHECK_DEADLOCK FALSE
