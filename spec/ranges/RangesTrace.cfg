SPECIFICATION TSpec
CONSTANTS
  MaxLen = 0
  Adaptors = {"enumerate", "reverse"}
  Cats = {"lvalue", "const", "rvalue", "crvalue"}
  Styles = {"pre", "post"}
  Handoffs = {"direct", "copy", "move", "assign"}
INVARIANTS VisitsAll WritesLand NoWritesElsewhere
CONSTRAINT Track
POSTCONDITION Report
CHECK_DEADLOCK FALSE
