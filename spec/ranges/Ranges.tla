-------------------------------- MODULE Ranges --------------------------------
(* nitro::lang::enumerate / nitro::lang::reverse (property C20) as the iteration protocol a range-for   *)
(* loop drives:  Begin -> (AtEnd? ; Deref ; [Write] ; Incr)* -> LoopEnd.                                  *)
(* The source is a sequence of distinguishable values; the category says how the adaptor got it:          *)
(* "lvalue" (visited values alias the elements: a Write changes the source), "const", "rvalue" (a         *)
(* temporary that must stay alive until LoopEnd) and "crvalue" (a const temporary, e.g. the result of a    *)
(* function declared to return `const T`: still a temporary, still has to stay alive).                     *)
EXTENDS Naturals, Sequences, FiniteSets, TLC, Json

CONSTANTS MaxLen, Adaptors, Cats,
          Styles,      \* how the loop advances: "pre" (++it, what a range-based for does) or "post" (it++, a hand-written
                       \* walk): both are the same step Incr
          Handoffs     \* how the range object reaches the loop: "direct" (for (x : adaptor(c))), or stored first and
                       \* then "copy"-constructed, "move"-constructed or "assign"-ed over another range of the same type.
                       \* A range has value semantics: none of this changes what the loop sees.

VARIABLES adaptor, cat, src, write, handoff, style,   \* the loop: which adaptor, category, source values, whether the body writes
          pc, pos, visited, tempAlive

vars == <<adaptor, cat, src, write, handoff, style, pc, pos, visited, tempAlive>>

Sources == { [i \in 1..n |-> 10 * i] : n \in 0..MaxLen }        \* element i has value 10*i
Init ==
  /\ adaptor \in Adaptors /\ cat \in Cats /\ src \in Sources
  /\ write \in (IF cat = "lvalue" THEN BOOLEAN ELSE {FALSE})
  /\ handoff \in Handoffs /\ style \in Styles
  /\ pc = "start" /\ pos = 0 /\ visited = <<>> /\ tempAlive = FALSE

N == Len(src)
Temporary == cat \in {"rvalue", "crvalue"}
Elem(k) == IF adaptor = "reverse" THEN N + 1 - k ELSE k          \* which source element the k-th step visits

Begin ==
  /\ pc = "start" /\ pc' = "test" /\ pos' = 1 /\ tempAlive' = Temporary
  /\ UNCHANGED <<adaptor, cat, src, write, handoff, style, visited>>

Deref ==            \* the loop variable: (index, value) for enumerate, value for reverse
  /\ pc = "test" /\ pos <= N
  /\ (Temporary => tempAlive)                                   \* the temporary is still there
  /\ visited' = Append(visited, [idx |-> (IF adaptor = "enumerate" THEN pos - 1 ELSE 0), val |-> src[Elem(pos)]])
  /\ pc' = "body"
  /\ UNCHANGED <<adaptor, cat, src, write, handoff, style, pos, tempAlive>>

Body ==             \* a write through the visited value lands in the source element (lvalue ranges)
  /\ pc = "body"
  /\ src' = IF write THEN [src EXCEPT ![Elem(pos)] = @ + 1] ELSE src
  /\ pc' = "incr"
  /\ UNCHANGED <<adaptor, cat, write, handoff, style, pos, visited, tempAlive>>

Incr == /\ pc = "incr" /\ pos' = pos + 1 /\ pc' = "test"
        /\ UNCHANGED <<adaptor, cat, src, write, handoff, style, visited, tempAlive>>

LoopEnd == /\ pc = "test" /\ pos > N /\ pc' = "done" /\ tempAlive' = FALSE
           /\ UNCHANGED <<adaptor, cat, src, write, handoff, style, pos, visited>>

Next == Begin \/ Deref \/ Body \/ Incr \/ LoopEnd
Spec == Init /\ [][Next]_vars /\ WF_vars(Next)

Done == pc = "done"
Terminates == <>Done
(* every element exactly once, in (reverse) iteration order, with indices 0, 1, 2, ... *)
VisitsAll ==
  Done => /\ Len(visited) = N
          /\ \A k \in 1..N : visited[k].val = 10 * Elem(k)
          /\ adaptor = "enumerate" => \A k \in 1..N : visited[k].idx = k - 1
WritesLand == Done /\ write => \A i \in 1..N : src[i] = 10 * i + 1
NoWritesElsewhere == Done /\ ~write => \A i \in 1..N : src[i] = 10 * i
TempOutlivesLoop == pc \in {"test", "body", "incr"} /\ Temporary => tempAlive

CaseRec == [adaptor |-> adaptor, cat |-> cat, n |-> N, write |-> write, handoff |-> handoff, style |-> style, visited |-> visited, after |-> src]
Emit == Done => PrintT("CASE " \o ToJson(CaseRec))
=============================================================================
