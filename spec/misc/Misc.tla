-------------------------------- MODULE Misc --------------------------------
(* Growth beyond the twenty listed properties (DESIGN.md section 10): small helpers of the library whose    *)
(* behaviour is a function table.  Checked by `bin/check-extra` (advisory: not a MANIFEST check, never a     *)
(* VIOLATION of a listed property).                                                                          *)
(*   make_catch<E...>(f)   runs f; an exception whose class is (derived from) one of the listed classes      *)
(*                         (default: std::exception) is swallowed and a default-constructed value returned;   *)
(*                         any other exception propagates                                                     *)
(*   string_ref            a non-owning reference to a C string that may be null                              *)
(*   severity_level        printing and severity_from_string                                                  *)
(*   plain sinks           stdout, stderr, log file, null: what a logger built over them writes is the        *)
(*                         concatenation of the formatted records, in order, flushed after each; null writes    *)
(*                         nothing; the null_filter rejects nothing                                             *)
EXTENDS Naturals, Sequences, FiniteSets, TLC, Json

(* ---- exception classes: a small hierarchy ------------------------------------------------------------- *)
Classes == {"std_exception", "runtime_error", "logic_error", "nitro_exception", "int"}
Parent(c) == CASE c = "runtime_error" -> "std_exception" [] c = "logic_error" -> "std_exception"
               [] c = "nitro_exception" -> "runtime_error" [] OTHER -> "none"
RECURSIVE IsA(_, _)
IsA(c, e) == c = e \/ (Parent(c) # "none" /\ IsA(Parent(c), e))

Filters == { <<>> } \cup { <<a>> : a \in Classes \ {"int"} } \cup { <<a, b>> : a, b \in Classes \ {"int"} }
Effective(f) == IF f = <<>> THEN <<"std_exception">> ELSE f
CatchD(f, thrown) ==       \* thrown = "none": f returns 7
  IF thrown = "none" THEN [out |-> "value", v |-> 7]
  ELSE IF \E k \in 1..Len(Effective(f)) : IsA(thrown, Effective(f)[k]) THEN [out |-> "value", v |-> 0]
  ELSE [out |-> "propagates", v |-> 0]

(* ---- string_ref ------------------------------------------------------------------------------------------- *)
Strs == {"", "a", "ab"}
Refs == Strs \cup {"<null>"}
RefEmpty(r) == r = "<null>" \/ r = ""
RefEq(a, b) == a # "<null>" /\ b # "<null>" /\ a = b          \* a null reference equals nothing, not even null
StrLen(s) == CASE s = "" -> 0 [] s = "a" -> 1 [] s = "ab" -> 2 [] OTHER -> 0

(* ---- severities --------------------------------------------------------------------------------------------- *)
SevNames == <<"TRACE", "DEBUG", "INFO", "WARN", "ERROR", "FATAL">>
Printed(k) == CASE k = 2 -> " INFO" [] k = 3 -> " WARN" [] OTHER -> SevNames[k + 1]       \* padded to five characters
Inputs == { "TRACE", "trace", "Debug", "INFO", "info", "wArN", "error", "FATAL", "", "warning", "inf", " INFO", "fatal " }
Upper(s) == CASE s = "trace" -> "TRACE" [] s = "Debug" -> "DEBUG" [] s = "info" -> "INFO" [] s = "wArN" -> "WARN"
              [] s = "error" -> "ERROR" [] s = "fatal " -> "FATAL " [] s = "warning" -> "WARNING" [] s = "inf" -> "INF" [] OTHER -> s
FromString(s, d) == LET m == { k \in 0..5 : SevNames[k + 1] = Upper(s) } IN IF m = {} THEN d ELSE CHOOSE k \in m : TRUE

(* ---- plain sinks ---------------------------------------------------------------------------------------------- *)
Sinks == {"stdout", "stderr", "logfile", "null"}
Msgs == {"m1", "m2x", ""}
MsgSeqs == UNION { [1..n -> Msgs] : n \in 0..3 }
RECURSIVE Written(_)
Written(ms) == IF ms = <<>> THEN "" ELSE Head(ms) \o "|" \o Written(Tail(ms))      \* the driver's formatter appends "|"
SinkD(sk, ms) == IF sk = "null" THEN "" ELSE Written(ms)

VARIABLES kind, a, b, res
vars == <<kind, a, b, res>>
Init ==
  \/ /\ kind = "catch" /\ a \in Filters /\ b \in Classes \cup {"none"} /\ res = CatchD(a, b)
  \/ /\ kind = "ref" /\ a \in Refs /\ b \in Refs
     /\ res = [empty |-> RefEmpty(a), eq |-> RefEq(a, b), ne |-> ~RefEq(a, b), size |-> (IF a = "<null>" THEN 0 ELSE StrLen(a))]
  \/ /\ kind = "sink" /\ a \in Sinks /\ b \in MsgSeqs /\ res = [bytes |-> SinkD(a, b), elsewhere |-> ""]
  \/ /\ kind = "sev" /\ a \in Inputs /\ b \in 0..5 /\ res = [from |-> FromString(a, b), printed |-> Printed(b)]
Next == UNCHANGED vars
Spec == Init /\ [][Next]_vars

(* laws *)
DefaultFilterIsStdException == kind = "catch" /\ a = <<>> => res = CatchD(<<"std_exception">>, b)
NonStdAlwaysPropagates == kind = "catch" /\ b = "int" => res.out = "propagates"
RefEqSymmetric == kind = "ref" => RefEq(a, b) = RefEq(b, a)
NullWritesNothing == kind = "sink" /\ a = "null" => res.bytes = ""
RoundTrip == \A k \in 0..5 : FromString(SevNames[k + 1], (k + 1) % 6) = k
Emit == PrintT("CASE " \o ToJson([kind |-> kind, a |-> a, b |-> b, res |-> res]))
=============================================================================
