SPECIFICATION Spec
INVARIANTS DefaultFilterIsStdException NonStdAlwaysPropagates RefEqSymmetric NullWritesNothing RoundTrip Emit
CHECK_DEADLOCK FALSE
