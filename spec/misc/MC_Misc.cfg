SPECIFICATION Spec
INVARIANTS DefaultFilterIsStdException NonStdAlwaysPropagates RefEqSymmetric RoundTrip Emit
CHECK_DEADLOCK FALSE
