------------------------------ MODULE LogTrace ------------------------------
(* code -> spec for log statements: one event per program statement of the driver, logged when it   *)
(* returns, carrying what that statement made observable:                                           *)
(*   {"e": "SetThr"|"Expr"|"Begin"|"Stream"|"End", "args": [...], "kind": "smart"|"null"|"",        *)
(*    "fmt": [{sev,tag,msg}], "sinks": [{sink, rec:{sev,tag,msg}}], "called": n}                    *)
(* and a Reset event that names the logger configuration {"e":"Reset","min":m,"fx":n}.              *)
(* Every event must be the Log action of that name with those arguments, with exactly the logged    *)
(* effects; all invariants of Log are evaluated on every step.                                      *)
EXTENDS MC_Log, TraceIO, Integers

VARIABLE l

Ev == TraceLog[l]
TIsCall(x) == x.t \in {"c", "f", "p", "n"}      \* functor, std::function, function pointer, function by name
TText(x) == IF x.t = "i" THEN ToString(x.v) ELSE x.v
TItems == [t : {"s", "c", "f", "p", "n"}, v : STRING] \cup [t : {"i"}, v : Int]

TInit ==
  /\ l = 1 /\ cfg = Cfg(0, 1) /\ thr = [i \in 1..3 |-> 0] /\ slot = [s \in 1..NSlots |-> Free]
  /\ last = [op |-> "init", args |-> <<>>, eff |-> NoEffect]

TReset ==
  /\ l <= TraceLen /\ Ev.e = "Reset"
  /\ cfg' = Cfg(Ev.min, Ev.fx) /\ thr' = [i \in 1..3 |-> 0] /\ slot' = [s \in 1..NSlots |-> Free]
  /\ last' = [op |-> "init", args |-> <<>>, eff |-> NoEffect]
  /\ l' = l + 1

Dispatch ==
  CASE Ev.e = "SetThr" -> SetThreshold(Ev.args[1], Ev.args[2])
    [] Ev.e = "Expr"   -> Expr(Ev.args[1], Ev.args[2], Ev.args[3])
    [] Ev.e = "Begin"  -> Begin(Ev.args[1], Ev.args[2], Ev.args[3])
    [] Ev.e = "Stream" -> Stream(Ev.args[1], Ev.args[2])
    [] Ev.e = "End"    -> End(Ev.args[1])
    [] Ev.e = "Move"   -> MoveStream(Ev.args[1], Ev.args[2])
    [] OTHER -> FALSE

TStep ==
  /\ l <= TraceLen /\ Ev.e # "Reset"
  /\ Dispatch
  /\ last'.eff = [kind |-> Ev.kind, fmt |-> Ev.fmt, sinks |-> Ev.sinks, called |-> Ev.called]
  /\ l' = l + 1

TNext == TReset \/ TStep
TSpec == TInit /\ [][TNext]_<<vars, l>>
Track == TrackCursor(l)
Report == ReportMatched
=============================================================================
