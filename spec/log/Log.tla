-------------------------------- MODULE Log --------------------------------
(* nitro::log statements (properties C05, C10): compile-time gate, runtime filter algebra, the life *)
(* cycle of a statement (begin, one `<<` per item, end), formatter and (sequence) sink.             *)
(*                                                                                                  *)
(* Configuration of a logger type (fixed per behaviour, like a template instantiation):             *)
(*   min  : compile-time minimum severity 0..5 (trace..fatal)                                       *)
(*   fx   : runtime filter expression over three threshold filters                                  *)
(*          <<"thr", i>> | <<"untagged">> | <<"and", f, g>> | <<"or", f, g>> | <<"not", f>>         *)
(*   ns   : number of members of the sequence sink (1 = plain sink)                                 *)
(* State: the thresholds, and the statements that are currently alive.  A statement is either one   *)
(* expression (`L::info(tag) << a << b;`, action Expr: begins, streams and ends in one step of the  *)
(* program) or a named stream object filled over several program statements (Begin/Stream/End).     *)
(* Everything a step makes observable is recorded in the ghost variable `last` (what reached the    *)
(* formatter, what reached which sink member in which order, how many lazily evaluated callables    *)
(* were invoked, the static type of the stream) and compared with the implementation step by step.  *)
EXTENDS Naturals, Sequences, FiniteSets, TLC, Json

CONSTANTS Configs,     \* set of [id, min, fx, ns]
          ThrVals,     \* threshold values SetThreshold may install
          Sevs,        \* statement severities explored
          Items,       \* the things a statement may stream (opaque to this module)
          IsCall(_),   \* item is a callable evaluated lazily
          Text(_),     \* the stream representation of an item (for a callable: of what it returns), a string
          MaxItems,    \* items per statement
          NSlots,      \* named stream objects that can be alive at once
          ThrIdx,      \* which of the three thresholds SetThreshold may change
          UseNamed, UseExpr, UseSetThr   \* which program statements the model explores

VARIABLES cfg, thr, slot, last
vars == <<cfg, thr, slot, last>>

Free == [st |-> "free", sev |-> 0, tag |-> 0, owns |-> FALSE, buf |-> <<>>]

(* a filter sees the record of the statement: its severity and its tag ("untagged" is a user-written filter that *)
(* accepts records without a tag -- the library hands every filter the same record)                            *)
RECURSIVE Eval(_, _, _, _)
Eval(f, t, sev, tag) ==
  CASE f[1] = "thr" -> sev >= t[f[2]]
    [] f[1] = "untagged" -> tag = 0
    [] f[1] = "and" -> Eval(f[2], t, sev, tag) /\ Eval(f[3], t, sev, tag)
    [] f[1] = "or"  -> Eval(f[2], t, sev, tag) \/ Eval(f[3], t, sev, tag)
    [] f[1] = "not" -> ~Eval(f[2], t, sev, tag)

CompiledIn(sev) == sev >= cfg.min                         \* the statement has a real stream type
Enabled(sev, tag) == CompiledIn(sev) /\ Eval(cfg.fx, thr, sev, tag)  \* ... and the runtime filter accepts it now

NoEffect == [kind |-> "", fmt |-> <<>>, sinks |-> <<>>, called |-> 0]
RECURSIVE Message(_)
Message(buf) == IF buf = <<>> THEN "" ELSE Text(Head(buf)) \o Message(Tail(buf))    \* concatenation, in order
Rec(sev, tag, buf) == [sev |-> sev, tag |-> tag, msg |-> Message(buf)]
Deliver(r) == [kind |-> "", fmt |-> <<r>>, sinks |-> [k \in 1..cfg.ns |-> [sink |-> k, rec |-> r]], called |-> 0]
NumCalls(items) == Cardinality({ k \in 1..Len(items) : IsCall(items[k]) })
IsItemList(items) == Len(items) <= MaxItems /\ \A k \in 1..Len(items) : items[k] \in Items
ItemLists == UNION { [1..n -> Items] : n \in 0..MaxItems }

Init ==
  /\ cfg \in Configs
  /\ thr = [i \in 1..3 |-> 0]                    \* severity_filter starts at trace
  /\ slot = [s \in 1..NSlots |-> Free]
  /\ last = [op |-> "init", args |-> <<>>, eff |-> NoEffect]

Idle == \A s \in 1..NSlots : slot[s].st = "free"

(* thresholds are only changed between statements *)
SetThreshold(i, v) ==
  /\ UseSetThr /\ Idle /\ i \in ThrIdx /\ v \in ThrVals
  /\ thr' = [thr EXCEPT ![i] = v]
  /\ last' = [op |-> "SetThr", args |-> <<i, v>>, eff |-> NoEffect]
  /\ UNCHANGED <<cfg, slot>>

(* one whole expression statement *)
Expr(sev, tag, items) ==
  /\ UseExpr /\ sev \in Sevs /\ tag \in {0, 1} /\ IsItemList(items)
  /\ last' = [op |-> "Expr", args |-> <<sev, tag, items>>,
              eff |-> IF Enabled(sev, tag)
                      THEN [Deliver(Rec(sev, tag, items)) EXCEPT !.kind = "smart", !.called = NumCalls(items)]
                      ELSE [NoEffect EXCEPT !.kind = IF CompiledIn(sev) THEN "smart" ELSE "null"]]
  /\ UNCHANGED <<cfg, thr, slot>>

(* a named stream object: the gates are evaluated once, when it is created *)
Begin(s, sev, tag) ==
  /\ UseNamed /\ s \in 1..NSlots /\ slot[s].st = "free" /\ sev \in Sevs /\ tag \in {0, 1}
  /\ slot' = [slot EXCEPT ![s] = [st |-> "live", sev |-> sev, tag |-> tag, owns |-> Enabled(sev, tag), buf |-> <<>>]]
  /\ last' = [op |-> "Begin", args |-> <<s, sev, tag>>,
              eff |-> [NoEffect EXCEPT !.kind = IF CompiledIn(sev) THEN "smart" ELSE "null"]]
  /\ UNCHANGED <<cfg, thr>>

Stream(s, item) ==
  /\ s \in 1..NSlots /\ slot[s].st = "live" /\ item \in Items /\ Len(slot[s].buf) < MaxItems
  /\ slot' = [slot EXCEPT ![s].buf = IF slot[s].owns THEN Append(@, item) ELSE @]
  /\ last' = [op |-> "Stream", args |-> <<s, item>>,
              eff |-> [NoEffect EXCEPT !.called = IF slot[s].owns /\ IsCall(item) THEN 1 ELSE 0]]   \* lazily: only if it will be logged
  /\ UNCHANGED <<cfg, thr>>

(* the stream object is moved into another variable; the moved-from object ends without any effect *)
MoveStream(s, t) ==
  /\ UseNamed /\ s \in 1..NSlots /\ t \in 1..NSlots /\ slot[s].st = "live" /\ slot[t].st = "free"
  /\ slot' = [slot EXCEPT ![t] = slot[s], ![s] = Free]
  /\ last' = [op |-> "Move", args |-> <<s, t>>, eff |-> NoEffect]
  /\ UNCHANGED <<cfg, thr>>

End(s) ==
  /\ s \in 1..NSlots /\ slot[s].st = "live"
  /\ slot' = [slot EXCEPT ![s] = Free]
  /\ last' = [op |-> "End", args |-> <<s>>,
              eff |-> IF slot[s].owns THEN Deliver(Rec(slot[s].sev, slot[s].tag, slot[s].buf)) ELSE NoEffect]
  /\ UNCHANGED <<cfg, thr>>

Next ==
  \/ \E i \in ThrIdx, v \in ThrVals : SetThreshold(i, v)
  \/ \E sev \in Sevs, tag \in {0, 1}, items \in ItemLists : Expr(sev, tag, items)
  \/ \E s \in 1..NSlots : \/ \E sev \in Sevs, tag \in {0, 1} : Begin(s, sev, tag)
                          \/ \E item \in Items : Stream(s, item)
                          \/ End(s)
                          \/ \E t \in 1..NSlots : MoveStream(s, t)
Spec == Init /\ [][Next]_vars

------------------------------------------------------------------------------------------------------
(* C05 / C10 as properties of every step *)
E == last.eff

TypeOK ==
  /\ \A s \in 1..NSlots : slot[s].st \in {"free", "live"} /\ Len(slot[s].buf) <= MaxItems
  /\ \A s \in 1..NSlots : slot[s].owns => slot[s].st = "live" /\ CompiledIn(slot[s].sev)

(* exactly once to the formatter and once to each sink member, in declaration order, or nothing at all *)
OnceOrNothing ==
  \/ E.fmt = <<>> /\ E.sinks = <<>>
  \/ /\ Len(E.fmt) = 1 /\ Len(E.sinks) = cfg.ns
     /\ \A k \in 1..cfg.ns : E.sinks[k].sink = k /\ E.sinks[k].rec = E.fmt[1]

(* C10: below the compile-time minimum the stream type discards everything; nothing is evaluated *)
NullBelowMinimum ==
  last.op \in {"Expr", "Begin"} =>
    LET sev == IF last.op = "Expr" THEN last.args[1] ELSE last.args[2] IN
      /\ (E.kind = "null") <=> (sev < cfg.min)
      /\ E.kind = "null" => E.fmt = <<>> /\ E.called = 0

(* a statement that is not logged never evaluates a callable; a logged one evaluates each exactly once *)
LazyEvaluation ==
  /\ last.op = "Expr" => E.called = (IF E.fmt = <<>> THEN 0 ELSE NumCalls(last.args[3]))
  /\ last.op = "Stream" => E.called \in {0, 1} /\ (E.called = 1 => IsCall(last.args[2]))

(* the delivered record is the statement, unaltered *)
Unaltered ==
  last.op = "Expr" /\ E.fmt # <<>> => E.fmt[1] = Rec(last.args[1], last.args[2], last.args[3])

(* a named statement delivers at End what Begin decided and Stream collected: action property *)
NamedEqualsExpr ==
  [][\A s \in 1..NSlots :
       last'.op = "End" /\ last'.args[1] = s /\ last'.eff.fmt # <<>>
         => last'.eff.fmt[1] = Rec(slot[s].sev, slot[s].tag, slot[s].buf) /\ slot[s].owns]_vars

GateDecidedAtBegin ==
  [][\A s \in 1..NSlots : slot[s].st = "live" /\ slot'[s].st = "live" => slot'[s].owns = slot[s].owns]_vars

(* exports *)
Abs == [cfg |-> cfg.id, thr |-> thr, slot |-> slot]
EmitEdge == PrintT("EDGE " \o ToJson([from |-> Abs, act |-> last', to |-> [cfg |-> cfg.id, thr |-> thr', slot |-> slot']]))
View == <<cfg, thr, slot>>
=============================================================================
