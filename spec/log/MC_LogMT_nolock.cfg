SPECIFICATION Spec
CONSTANTS
  Threads = {1,2}
  NRec = 2
  NBytes = 2
  UseLock = FALSE
INVARIANTS TypeOK MutualExclusion Contiguous AtMostOnce ProgramOrder ExactlyOnceAtEnd HolderIsBusy
VIEW View
CHECK_DEADLOCK FALSE
