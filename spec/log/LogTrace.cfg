SPECIFICATION TSpec
CONSTANTS
  Configs = {}
  ThrVals = {0,1,2,3,4,5}
  ThrIdx = {1,2,3}
  Sevs = {0,1,2,3,4,5}
  Items <- TItems
  IsCall <- TIsCall
  Text <- TText
  MaxItems = 6
  NSlots = 3
  UseNamed = TRUE
  UseExpr = TRUE
  UseSetThr = TRUE
INVARIANTS TypeOK OnceOrNothing NullBelowMinimum LazyEvaluation Unaltered
PROPERTIES NamedEqualsExpr GateDecidedAtBegin
CONSTRAINT Track
POSTCONDITION Report
CHECK_DEADLOCK FALSE
