------------------------------- MODULE MC_Log -------------------------------
EXTENDS Log
MCIsCall(x) == x = "c"
MCText(x) == x
T1 == <<"thr", 1>>  T2 == <<"thr", 2>>  T3 == <<"thr", 3>>
(* the eight filter shapes the drivers instantiate (harness/log_driver.cpp uses the same numbering) *)
FX(n) == CASE n = 1 -> T1
           [] n = 2 -> <<"and", T1, T2>>
           [] n = 3 -> <<"or", T1, T2>>
           [] n = 4 -> <<"not", T1>>
           [] n = 5 -> <<"not", <<"not", T1>>>>
           [] n = 6 -> <<"and", T1, <<"not", T2>>>>
           [] n = 7 -> <<"or", <<"not", T1>>, <<"and", T2, T3>>>>
           [] n = 8 -> <<"not", <<"or", T1, T2>>>>
           [] n = 9 -> <<"and", T1, <<"untagged">>>>
NS(n) == CASE n \in {1, 2, 3} -> 3 [] n \in {4, 6, 8, 9} -> 1 [] OTHER -> 2
Cfg(m, n) == [id |-> m * 10 + n, min |-> m, fx |-> FX(n), ns |-> NS(n)]
AllConfigs == { Cfg(m, n) : m \in 0..5, n \in 1..9 }
StmtConfigsQ == { Cfg(m, n) : m \in {0, 2}, n \in {1, 4, 9} }
StmtConfigsT == { Cfg(m, n) : m \in {0, 3}, n \in {1, 4, 7, 9} }
=============================================================================
