SPECIFICATION TSpec
CONSTANTS
  Threads = {1,2,3,4,5,6,7,8,9,10,11,12,13,14,15,16}
  NRec = 3
  NBytes = 4
  UseLock = TRUE
INVARIANTS TypeOK MutualExclusion Contiguous AtMostOnce ProgramOrder HolderIsBusy
CONSTRAINT Track
POSTCONDITION Report
CHECK_DEADLOCK FALSE
