SPECIFICATION Spec
CONSTANTS
  Configs <- StmtConfigsQ
  ThrVals = {0,3}
  ThrIdx = {1}
  Sevs = {1,3}
  Items = {"s","c"}
  IsCall <- MCIsCall
  Text <- MCText
  MaxItems = 2
  NSlots = 2
  UseNamed = TRUE
  UseExpr = TRUE
  UseSetThr = TRUE
INVARIANTS TypeOK OnceOrNothing NullBelowMinimum LazyEvaluation Unaltered
PROPERTIES NamedEqualsExpr GateDecidedAtBegin
ACTION_CONSTRAINT EmitEdge
VIEW View
CHECK_DEADLOCK FALSE
