------------------------------- MODULE LogMT -------------------------------
(* Thread-safe sinks stdout_mt / stderr_mt (property C09).                                          *)
(*                                                                                                  *)
(* N threads each log NRec records through one logger.  A record is built by its thread alone, then *)
(* handed to the sink:   Request (call sink) -> Acquire (the sink's mutex) -> Enter the stream buffer *)
(* -> one Chunk step per byte -> Exit -> optionally SyncEnter/SyncExit (flush) -> Release.          *)
(* The stream buffer is a shared, non-atomic resource: `inside` is the set of threads currently     *)
(* executing in it, `out` the bytes it has received, in order.  UseLock = FALSE is the negative      *)
(* control (the design without the mutex) and must violate the invariants.                          *)
EXTENDS Naturals, Sequences, FiniteSets, TLC, Json

CONSTANTS Threads,     \* e.g. 1..2
          NRec,        \* records per thread
          NBytes,      \* bytes per record
          UseLock      \* TRUE: the sink takes its mutex

VARIABLES pc,          \* per thread: "idle" | "want" | "locked" | "in" | "after" | "insync" | "synced" | "done"
          rec,         \* per thread: index of the record being logged
          pos,         \* per thread: next byte of the record
          lock,        \* 0 = free, else the holder
          inside,      \* threads executing inside the stream buffer
          out,         \* bytes received by the stream buffer: <<thread, record, byte index>>
          lastAct      \* ghost for export: <<action name, thread>>

vars == <<pc, rec, pos, lock, inside, out, lastAct>>

Init ==
  /\ pc = [t \in Threads |-> "idle"] /\ rec = [t \in Threads |-> 1] /\ pos = [t \in Threads |-> 1]
  /\ lock = 0 /\ inside = {} /\ out = <<>> /\ lastAct = <<"Init", 0>>

Act(n, t) == lastAct' = <<n, t>>

Request(t) ==      \* the thread has built its record and calls Sink::sink
  /\ pc[t] = "idle" /\ rec[t] <= NRec
  /\ pc' = [pc EXCEPT ![t] = "want"] /\ Act("Request", t)
  /\ UNCHANGED <<rec, pos, lock, inside, out>>

Acquire(t) ==
  /\ pc[t] = "want" /\ (UseLock => lock = 0)
  /\ lock' = (IF UseLock THEN t ELSE lock)
  /\ pc' = [pc EXCEPT ![t] = "locked"] /\ Act("Acquire", t)
  /\ UNCHANGED <<rec, pos, inside, out>>

Enter(t) ==
  /\ pc[t] = "locked"
  /\ inside' = inside \cup {t} /\ pos' = [pos EXCEPT ![t] = 1]
  /\ pc' = [pc EXCEPT ![t] = "in"] /\ Act("Enter", t)
  /\ UNCHANGED <<rec, lock, out>>

Chunk(t) ==
  /\ pc[t] = "in" /\ pos[t] <= NBytes
  /\ out' = Append(out, <<t, rec[t], pos[t]>>) /\ pos' = [pos EXCEPT ![t] = @ + 1]
  /\ Act("Chunk", t)
  /\ UNCHANGED <<pc, rec, lock, inside>>

Exit(t) ==
  /\ pc[t] = "in" /\ pos[t] > NBytes
  /\ inside' = inside \ {t}
  /\ pc' = [pc EXCEPT ![t] = "after"] /\ Act("Exit", t)
  /\ UNCHANGED <<rec, pos, lock, out>>

SyncEnter(t) ==    \* std::flush / unitbuf: a second visit to the stream buffer, still under the lock
  /\ pc[t] = "after"
  /\ inside' = inside \cup {t}
  /\ pc' = [pc EXCEPT ![t] = "insync"] /\ Act("SyncEnter", t)
  /\ UNCHANGED <<rec, pos, lock, out>>

SyncExit(t) ==
  /\ pc[t] = "insync"
  /\ inside' = inside \ {t}
  /\ pc' = [pc EXCEPT ![t] = "synced"] /\ Act("SyncExit", t)
  /\ UNCHANGED <<rec, pos, lock, out>>

Release(t) ==      \* leaving Sink::sink: the lock guard is destroyed, the statement ends
  /\ pc[t] \in {"after", "synced"}
  /\ lock' = (IF lock = t THEN 0 ELSE lock)
  /\ rec' = [rec EXCEPT ![t] = @ + 1]
  /\ pc' = [pc EXCEPT ![t] = IF rec[t] + 1 > NRec THEN "done" ELSE "idle"] /\ Act("Release", t)
  /\ UNCHANGED <<pos, inside, out>>

Step(t) == Request(t) \/ Acquire(t) \/ Enter(t) \/ Chunk(t) \/ Exit(t) \/ SyncEnter(t) \/ SyncExit(t) \/ Release(t)
Next == \E t \in Threads : Step(t)
Spec == Init /\ [][Next]_vars /\ \A t \in Threads : WF_vars(Step(t))

------------------------------------------------------------------------------------------------------
AllDone == \A t \in Threads : pc[t] = "done"

TypeOK == lock \in Threads \cup {0} /\ inside \subseteq Threads

(* at most one thread inside the (not thread-safe) stream buffer *)
MutualExclusion == Cardinality(inside) <= 1

(* the bytes of two records never interleave: every byte but the first of a record directly follows its predecessor *)
Contiguous ==
  \A i \in 1..Len(out) : out[i][3] > 1 => i > 1 /\ out[i - 1] = <<out[i][1], out[i][2], out[i][3] - 1>>

(* nothing duplicated *)
AtMostOnce == \A i, j \in 1..Len(out) : out[i] = out[j] => i = j

(* each thread's records appear in its program order *)
ProgramOrder ==
  \A i, j \in 1..Len(out) : i < j /\ out[i][1] = out[j][1] => out[i][2] <= out[j][2]

(* at the end every record is there, completely *)
ExactlyOnceAtEnd ==
  AllDone => \A t \in Threads, r \in 1..NRec, k \in 1..NBytes : \E i \in 1..Len(out) : out[i] = <<t, r, k>>

(* the lock is always released: every thread finishes *)
EveryoneFinishes == <>AllDone

HolderIsBusy == lock # 0 => pc[lock] \in {"locked", "in", "after", "insync", "synced"}

Abs == [pc |-> pc, rec |-> rec, pos |-> pos, lock |-> lock, inside |-> inside, n |-> Len(out)]
EmitEdge == PrintT("EDGE " \o ToJson([from |-> Abs,
                                      act |-> [op |-> lastAct'[1], args |-> <<lastAct'[2]>>],
                                      to |-> [pc |-> pc', rec |-> rec', pos |-> pos', lock |-> lock', inside |-> inside', n |-> Len(out')]]))
View == <<pc, rec, pos, lock, inside, out>>
=============================================================================
