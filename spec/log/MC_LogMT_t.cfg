SPECIFICATION Spec
CONSTANTS
  Threads = {1,2,3}
  NRec = 2
  NBytes = 2
  UseLock = TRUE
INVARIANTS TypeOK MutualExclusion Contiguous AtMostOnce ProgramOrder ExactlyOnceAtEnd HolderIsBusy
PROPERTY EveryoneFinishes
ACTION_CONSTRAINT EmitEdge
VIEW View
CHECK_DEADLOCK FALSE
