SPECIFICATION Spec
CONSTANTS
  Configs <- AllConfigs
  ThrVals = {0,1,2,3,4,5}
  ThrIdx = {1,2,3}
  Sevs = {0,1,2,3,4,5}
  Items = {"s"}
  IsCall <- MCIsCall
  Text <- MCText
  MaxItems = 1
  NSlots = 1
  UseNamed = FALSE
  UseExpr = TRUE
  UseSetThr = TRUE
INVARIANTS TypeOK OnceOrNothing NullBelowMinimum LazyEvaluation Unaltered
ACTION_CONSTRAINT EmitEdge
VIEW View
CHECK_DEADLOCK FALSE
