SPECIFICATION TSpec
CONSTANTS
  Threads = {1,2,3,4}
  NRec = 3
  NBytes = 300
  UseLock = TRUE
INVARIANTS MutualExclusion HolderIsBusy
CONSTRAINT Track
POSTCONDITION Report
CHECK_DEADLOCK FALSE
