------------------------------ MODULE LogMTIndNoLock ------------------------------
(* The lock / stream-buffer core of LogMT.tla (without the output sequence), typed for Apalache, with an    *)
(* inductive invariant for mutual exclusion inside the stream buffer.  Apalache discharges                   *)
(*    Init => IndInv          (length 0)      and      IndInv /\ Next => IndInv'   (length 1)                *)
(* for a fixed set of threads and *arbitrary* numbers of records and bytes per record (NRec, NBytes are       *)
(* unconstrained naturals), i.e. for behaviours of any length - something TLC's bounded search cannot give.   *)
EXTENDS Integers, FiniteSets

CONSTANTS
  \* @type: Set(Int);
  Threads,
  \* @type: Int;
  NRec,
  \* @type: Int;
  NBytes

VARIABLES
  \* @type: Int -> Str;
  pc,
  \* @type: Int -> Int;
  rec,
  \* @type: Int -> Int;
  pos,
  \* @type: Int;
  lock,
  \* @type: Set(Int);
  inside

ConstInit == Threads = {1, 2, 3, 4} /\ NRec \in Nat /\ NBytes \in Nat

Init ==
  /\ pc = [t \in Threads |-> "idle"] /\ rec = [t \in Threads |-> 1] /\ pos = [t \in Threads |-> 1]
  /\ lock = 0 /\ inside = {}

Request(t) == /\ pc[t] = "idle" /\ rec[t] <= NRec /\ pc' = [pc EXCEPT ![t] = "want"] /\ UNCHANGED <<rec, pos, lock, inside>>
Acquire(t) == /\ pc[t] = "want" /\ lock' = t /\ pc' = [pc EXCEPT ![t] = "locked"] /\ UNCHANGED <<rec, pos, inside>>
Enter(t) == /\ pc[t] = "locked" /\ inside' = (inside \union {t}) /\ pos' = [pos EXCEPT ![t] = 1]
            /\ pc' = [pc EXCEPT ![t] = "in"] /\ UNCHANGED <<rec, lock>>
Chunk(t) == /\ pc[t] = "in" /\ pos[t] <= NBytes /\ pos' = [pos EXCEPT ![t] = @ + 1] /\ UNCHANGED <<pc, rec, lock, inside>>
Exit(t) == /\ pc[t] = "in" /\ pos[t] > NBytes /\ inside' = (inside \ {t}) /\ pc' = [pc EXCEPT ![t] = "after"] /\ UNCHANGED <<rec, pos, lock>>
SyncEnter(t) == /\ pc[t] = "after" /\ inside' = (inside \union {t}) /\ pc' = [pc EXCEPT ![t] = "insync"] /\ UNCHANGED <<rec, pos, lock>>
SyncExit(t) == /\ pc[t] = "insync" /\ inside' = (inside \ {t}) /\ pc' = [pc EXCEPT ![t] = "synced"] /\ UNCHANGED <<rec, pos, lock>>
Release(t) == /\ pc[t] \in {"after", "synced"} /\ lock' = (IF lock = t THEN 0 ELSE lock) /\ rec' = [rec EXCEPT ![t] = @ + 1]
              /\ pc' = [pc EXCEPT ![t] = IF rec[t] + 1 > NRec THEN "done" ELSE "idle"] /\ UNCHANGED <<pos, inside>>

Next == \E t \in Threads : Request(t) \/ Acquire(t) \/ Enter(t) \/ Chunk(t) \/ Exit(t) \/ SyncEnter(t) \/ SyncExit(t) \/ Release(t)

Holding == {"locked", "in", "after", "insync", "synced"}
PCs == {"idle", "want", "locked", "in", "after", "insync", "synced", "done"}

IndInv ==
  /\ pc \in [Threads -> PCs] /\ rec \in [Threads -> Nat] /\ pos \in [Threads -> Nat]
  /\ lock \in (Threads \union {0}) /\ inside \in SUBSET Threads
  /\ \A t \in Threads : (pc[t] \in Holding) <=> (lock = t)          \* exactly the lock holder is past the lock
  /\ \A t \in Threads : (t \in inside) <=> (pc[t] \in {"in", "insync"})

MutualExclusion == Cardinality(inside) <= 1
(* IndInv implies mutual exclusion: at most one thread can equal `lock` *)
Implies == IndInv => MutualExclusion
=============================================================================
