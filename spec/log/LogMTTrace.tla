----------------------------- MODULE LogMTTrace -----------------------------
(* code -> spec for the thread-safe sinks: the checking stream buffer logs, under its own ticket     *)
(* lock, one event per step a thread takes:  Request (before calling the sink), Enter, Chunk(byte),   *)
(* Exit, SyncEnter, SyncExit (inside the buffer) and Released (after the sink returned).  Acquire and *)
(* Release happen inside the library and are not logged: the trace actions compose them silently     *)
(* where LogMT allows them -- an Enter(t) event is explained only if the lock is free, or can be      *)
(* released by its holder first (the holder has left the buffer for good).                            *)
EXTENDS LogMT, TraceIO

VARIABLE l
Ev == TraceLog[l]

Byte(t, r, k) == ((t % 8) * 32) + ((r % 4) * 8) + (k % 8)

TInit == l = 1 /\ Init

TReset ==
  /\ l <= TraceLen /\ Ev.e = "Reset"
  /\ pc' = [t \in Threads |-> "idle"] /\ rec' = [t \in Threads |-> 1] /\ pos' = [t \in Threads |-> 1]
  /\ lock' = 0 /\ inside' = {} /\ out' = <<>> /\ lastAct' = <<"Init", 0>>
  /\ l' = l + 1

TRequest == Ev.e = "Request" /\ Request(Ev.t) /\ l' = l + 1

(* Enter(t), preceded by the silent steps that must have happened: [Release(holder)] ; Acquire(t) *)
CanRelease(u) == u # 0 /\ pc[u] \in {"after", "synced"}
TEnter ==
  /\ Ev.e = "Enter"
  /\ LET t == Ev.t IN
       /\ pc[t] = "want"
       /\ \/ lock = 0 /\ UNCHANGED rec
          \/ lock # 0 /\ lock # t /\ CanRelease(lock) /\ rec' = [rec EXCEPT ![lock] = @ + 1]
       /\ lock' = t
       /\ pc' = [u \in Threads |-> IF u = t THEN "in"
                                   ELSE IF u = lock /\ lock # 0 THEN (IF rec[u] + 1 > NRec THEN "done" ELSE "idle")
                                   ELSE pc[u]]
       /\ inside' = inside \cup {t} /\ pos' = [pos EXCEPT ![t] = 1]
       /\ lastAct' = <<"Enter", t>> /\ UNCHANGED out
  /\ l' = l + 1

TChunk == Ev.e = "Chunk" /\ Chunk(Ev.t) /\ Ev.b = Byte(Ev.t, rec[Ev.t], pos[Ev.t]) /\ l' = l + 1
TExit == Ev.e = "Exit" /\ Exit(Ev.t) /\ l' = l + 1
TSyncEnter == Ev.e = "SyncEnter" /\ SyncEnter(Ev.t) /\ l' = l + 1
TSyncExit == Ev.e = "SyncExit" /\ SyncExit(Ev.t) /\ l' = l + 1

(* logged after the sink returned: the release itself may already have been consumed by another thread's Enter *)
TReleased ==
  /\ Ev.e = "Released"
  /\ \/ Release(Ev.t) /\ lock \in {0, Ev.t}
     \/ pc[Ev.t] \in {"idle", "done"} /\ UNCHANGED vars
  /\ l' = l + 1

(* end of the run: the first Ev.n threads have logged everything, exactly once *)
TDone ==
  /\ Ev.e = "Done"
  /\ \A t \in 1..Ev.n : pc[t] = "done"
  \* (implied by the two neighbouring conjuncts, every Chunk appends the thread's next byte; spelled out for short records)
  /\ NBytes <= 8 => \A t \in 1..Ev.n, r \in 1..NRec, k \in 1..NBytes : \E i \in 1..Len(out) : out[i] = <<t, r, k>>
  /\ Len(out) = Ev.n * NRec * NBytes
  /\ inside = {} /\ lock = 0
  /\ UNCHANGED vars /\ l' = l + 1

TNext == (l <= TraceLen) /\ (TReset \/ TRequest \/ TEnter \/ TChunk \/ TExit \/ TSyncEnter \/ TSyncExit \/ TReleased \/ TDone)
TSpec == TInit /\ [][TNext]_<<vars, l>>
Track == TrackCursor(l)
Report == ReportMatched
=============================================================================
