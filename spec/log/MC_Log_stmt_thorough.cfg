SPECIFICATION Spec
CONSTANTS
  Configs <- StmtConfigsT
  ThrVals = {0,2,5}
  ThrIdx = {1}
  Sevs = {0,2,4}
  Items = {"s","c"}
  IsCall <- MCIsCall
  Text <- MCText
  MaxItems = 2
  NSlots = 2
  UseNamed = TRUE
  UseExpr = TRUE
  UseSetThr = TRUE
INVARIANTS TypeOK OnceOrNothing NullBelowMinimum LazyEvaluation Unaltered
PROPERTIES NamedEqualsExpr GateDecidedAtBegin
ACTION_CONSTRAINT EmitEdge
VIEW View
CHECK_DEADLOCK FALSE
