---------------------------- MODULE MC_Strings ----------------------------
EXTENDS Strings
A == 97  B == 98  SP == 32  CM == 44
Alpha == {A, B, SP}

\* quick
QHays     == StrUpTo(Alpha, 5)
QNeedles  == StrFromTo(Alpha, 1, 2) \cup {<<A, B, A>>, <<A, A, A>>}
QPatterns == StrUpTo({A, B}, 2) \cup {<<SP>>, <<A, SP>>}
QRepls    == {<<>>, <<A>>, <<B>>, <<A, B>>, <<A, A>>, <<B, A>>, <<SP>>, <<A, B, A>>}
Elem      == {<<>>, <<A>>, <<A, SP>>, <<SP>>, <<B, CM>>}
QElemLists == UNION { [1..k -> Elem] : k \in 0..3 }
QInfixes  == {<<>>, <<SP>>, <<CM>>, <<CM, SP>>, <<A>>}

\* thorough
THays     == StrUpTo(Alpha, 7)
TNeedles  == StrFromTo(Alpha, 1, 3)
TPatterns == StrUpTo(Alpha, 3)
TRepls    == StrUpTo({A, B}, 2) \cup {<<SP>>, <<A, B, A>>, <<A, SP, A>>}
TElemLists == UNION { [1..k -> Elem] : k \in 0..4 }
=============================================================================
