SPECIFICATION Spec
CONSTANTS
  Hays <- THays
  Needles <- TNeedles
  Patterns <- TPatterns
  Repls <- TRepls
  ElemLists <- TElemLists
  Infixes <- QInfixes
  Ops = {"split", "replace", "join", "starts"}
INVARIANTS TypeOK MachineIsMeaning SplitLaws ReplaceLaws JoinLaws Emit
PROPERTY Terminates
CHECK_DEADLOCK FALSE
