SPECIFICATION Spec
CONSTANTS
  Fmts <- HFmts
  ArgVals <- HArgVals
  MaxArgs = 3
  ItemVals <- HItemVals
  MaxItems = 2
  MaxOps = 3
  Ops = {"format", "raise"}
INVARIANTS MachineIsMeaning FormatLaws EveryOpIsMeaning AgainIsSame Emit
PROPERTY Terminates
CHECK_DEADLOCK FALSE
