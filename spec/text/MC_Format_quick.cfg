SPECIFICATION Spec
CONSTANTS
  Fmts <- QFmts
  ArgVals <- MCArgVals
  MaxArgs = 3
  ItemVals <- MCItemVals
  MaxItems = 3
  MaxOps = 1
  Ops = {"format", "raise"}
INVARIANTS MachineIsMeaning FormatLaws EveryOpIsMeaning AgainIsSame Emit
PROPERTY Terminates
CHECK_DEADLOCK FALSE
