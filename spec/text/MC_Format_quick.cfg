SPECIFICATION Spec
CONSTANTS
  Fmts <- QFmts
  ArgVals <- MCArgVals
  MaxArgs = 3
  ItemVals <- MCItemVals
  MaxItems = 3
  Ops = {"format", "raise"}
INVARIANTS MachineIsMeaning FormatLaws Emit
PROPERTY Terminates
CHECK_DEADLOCK FALSE
