---------------------------- MODULE StringsTrace ----------------------------
(* code -> spec: every recorded call of split / replace_all / join / starts_with must be a        *)
(* behaviour of Strings: the machine is put into the terminal state the *meaning* assigns to the  *)
(* logged arguments (MachineIsMeaning is established by TLC on the design model), the logged       *)
(* result must be that state's result, and all laws of Strings are evaluated as invariants on it.  *)
EXTENDS Strings, TraceIO

VARIABLE l

ExplainedOut(ev) ==
  CASE ev.e = "split" ->
         IF ev.a2 = <<>> THEN ev.outcome = "raise"
         ELSE ev.outcome = "ok" /\ ev.out = SplitD(ev.a1, ev.a2)
    [] ev.e = "replace" ->
         IF ev.a2 = <<>> THEN ev.outcome \in {"ok", "raise"}     \* it returned; result is free
         ELSE ev.outcome = "ok" /\ ev.out = ReplaceD(ev.a1, ev.a2, ev.a3)
    [] ev.e = "join" ->
         /\ ev.outcome = "ok"
         /\ ev.out = JoinD(ev.a1, ev.a2)
         /\ ev.out_iter = JoinD(ev.a1, ev.a2)
    [] ev.e = "joinitems" ->
         ev.outcome = "ok" /\ ev.out = JoinItemsD(ev.a1, ev.a2)
    [] ev.e = "starts" ->
         ev.outcome = "ok" /\ ev.out = (IF StartsWith(ev.a1, ev.a2) THEN <<1>> ELSE <<0>>)
    [] OTHER -> FALSE

(* `alts`: results of the same call made with temporaries / const objects / other iterator kinds as arguments *)
AltsAgree(ev) == \A k \in 1..Len(ev.alts) : ev.alts[k] = ev.out
Explained(ev) == AltsAgree(ev) /\ ExplainedOut(ev)

FinalAcc(ev) ==
  CASE ev.e = "split" /\ ev.a2 # <<>>   -> SplitD(ev.a1, ev.a2)
    [] ev.e = "replace" /\ ev.a2 # <<>> -> ReplaceD(ev.a1, ev.a2, ev.a3)
    [] ev.e = "join"                     -> JoinD(ev.a1, ev.a2)
    [] ev.e = "joinitems"                -> JoinItemsD(ev.a1, ev.a2)
    [] ev.e = "starts"                   -> (IF StartsWith(ev.a1, ev.a2) THEN <<1>> ELSE <<0>>)
    [] OTHER -> <<>>

TInit ==
  /\ l = 1 /\ op = "none" /\ a1 = <<>> /\ a2 = <<>> /\ a3 = <<>> /\ pos = 1 /\ acc = <<>>
  /\ first = TRUE /\ phase = "run" /\ outcome = "ok"

TReset ==
  /\ l <= TraceLen /\ TraceLog[l].e = "Reset"
  /\ l' = l + 1 /\ op' = "none" /\ a1' = <<>> /\ a2' = <<>> /\ a3' = <<>> /\ pos' = 1 /\ acc' = <<>>
  /\ first' = TRUE /\ phase' = "run" /\ outcome' = "ok"

TCall ==
  /\ l <= TraceLen /\ TraceLog[l].e # "Reset"
  /\ LET ev == TraceLog[l] IN
       /\ Explained(ev)
       \* a join over streamable elements is a join over their texts: the join laws are evaluated on those
       /\ op' = (IF ev.e = "joinitems" THEN "join" ELSE ev.e)
       /\ a1' = (IF ev.e = "joinitems" THEN ElemTexts(ev.a1) ELSE ev.a1) /\ a2' = ev.a2
       /\ a3' = (IF ev.e = "replace" THEN ev.a3 ELSE <<>>)
       /\ acc' = FinalAcc(ev)
       /\ outcome' = (IF ev.e = "split" /\ ev.a2 = <<>> THEN "raise"
                      ELSE IF ev.e = "replace" /\ ev.a2 = <<>> THEN "free" ELSE "ok")
  /\ phase' = "done" /\ pos' = 1 /\ first' = TRUE
  /\ l' = l + 1

TNext == TReset \/ TCall
TSpec == TInit /\ [][TNext]_<<vars, l>>
Track == TrackCursor(l)
Report == ReportMatched
=============================================================================
