SPECIFICATION Spec
CONSTANTS
  Fmts <- TFmts
  ArgVals <- MCArgVals
  MaxArgs = 4
  ItemVals <- MCItemVals
  MaxItems = 3
  Ops = {"format", "raise"}
INVARIANTS MachineIsMeaning FormatLaws Emit
PROPERTY Terminates
CHECK_DEADLOCK FALSE
