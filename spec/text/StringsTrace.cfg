SPECIFICATION TSpec
CONSTANTS
  Hays = {}
  Needles = {}
  Patterns = {}
  Repls = {}
  ElemLists = {}
  Infixes = {}
  Ops = {}
INVARIANTS SplitLaws ReplaceLaws JoinLaws
CONSTRAINT Track
POSTCONDITION Report
CHECK_DEADLOCK FALSE
