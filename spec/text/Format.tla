------------------------------- MODULE Format -------------------------------
(* nitro::format and the message of nitro::raise  (property C08).                                  *)
(*                                                                                                  *)
(* Machine: a scanner over the format string, one step per character or per placeholder; argument  *)
(* texts are opaque and appended verbatim (never rescanned).  Meaning: the pieces of the format     *)
(* between `{}` occurrences spliced with the arguments.  Arity mismatch in either direction raises. *)
(*                                                                                                  *)
(* Object level (MaxOps > 1): one thread performs a history of operations.  A formatter object keeps *)
(* its arguments: it can be rendered again (same text), given more arguments and rendered again (the *)
(* text / the arity error of all arguments given so far); a raise builds its message on a stream of   *)
(* its own, so nothing an earlier message did to its stream (an argument type that switches the       *)
(* stream to hexadecimal, say) is seen by a later one - within one message it is, as with any ostream.*)
EXTENDS Naturals, Integers, Sequences, FiniteSets, Bytes, TLC, Json

CONSTANTS Fmts,      \* set of format strings (byte strings)
          ArgVals,   \* set of argument texts
          MaxArgs,   \* bound on the number of supplied arguments
          ItemVals,  \* set of raise items  [t |-> "s", v |-> bytes] or [t |-> "i", v |-> Int]
          MaxItems,
          Ops,       \* subset of {"format", "raise"}
          MaxOps     \* operations per history (1: single calls)

PH == <<123, 125>>    \* "{}"

--------------------------------------------------------------------------------------------------
(* meaning *)

RECURSIVE Pieces(_)
Pieces(f) ==
  LET p == Find(f, PH)
  IN IF p = 0 THEN <<f>> ELSE <<SubSeq(f, 1, p - 1)>> \o Pieces(Tail0(f, p + 2))

NumPlaceholders(f) == Len(Pieces(f)) - 1

RECURSIVE Splice(_, _)
Splice(pieces, args) ==    \* Len(pieces) = Len(args) + 1
  IF args = <<>> THEN pieces[1] ELSE pieces[1] \o args[1] \o Splice(Tail(pieces), Tail(args))

FormatD(f, args) ==
  IF Len(args) # NumPlaceholders(f) THEN [outcome |-> "raise", out |-> <<>>]
  ELSE [outcome |-> "ok", out |-> Splice(Pieces(f), args)]

(* items: "s" text, "i" integer, "h" a user type whose operator<< prints its (natural) number in hexadecimal and    *)
(* leaves the stream in that mode: the integers streamed after it *into the same message* come out hexadecimal too  *)
ItemText(it, hex) == CASE it.t = "s" -> it.v
                       [] it.t = "h" -> HexText(it.v)
                       [] OTHER -> IF hex THEN HexText(it.v) ELSE IntText(it.v)
RECURSIVE MessageM(_, _)
MessageM(items, hex) == IF items = <<>> THEN <<>>
                        ELSE ItemText(Head(items), hex) \o MessageM(Tail(items), hex \/ Head(items).t = "h")
MessageD(items) == MessageM(items, FALSE)       \* every message starts on a fresh stream
(* hexadecimal text of negative numbers is two's complement: kept out of the model *)
WellFormedItems(items) == \A i, j \in 1..Len(items) : i < j /\ items[i].t = "h" /\ items[j].t = "i" => items[j].v >= 0

--------------------------------------------------------------------------------------------------
(* machine *)

VARIABLES op, fmt, args, pos, argIdx, out, phase, outcome,
          hex,      \* raise: the message stream has been switched to hexadecimal by an earlier item of this message
          cont,     \* how this operation relates to the previous one: "new" | "again" | "mod" | "args"
          hist      \* finished operations of this history
vars == <<op, fmt, args, pos, argIdx, out, phase, outcome, hex, cont, hist>>

Choose(o, f, a) ==      \* a new operation: a fresh formatter with all its arguments, or a raise
  \/ /\ "format" \in Ops /\ o = "format" /\ f \in Fmts
     /\ \E n \in 0..MaxArgs : n <= NumPlaceholders(f) + 1 /\ a \in [1..n -> ArgVals]
  \/ /\ "raise" \in Ops /\ o = "raise" /\ f = <<>>
     /\ \E n \in 1..MaxItems : a \in [1..n -> ItemVals] /\ WellFormedItems(a)

Init ==
  /\ pos = 1 /\ argIdx = 1 /\ out = <<>> /\ phase = "run" /\ outcome = "ok" /\ hex = FALSE /\ cont = "new" /\ hist = <<>>
  /\ Choose(op, fmt, args)

AtPlaceholder == pos + 1 <= Len(fmt) /\ fmt[pos] = 123 /\ fmt[pos + 1] = 125

Substitute ==
  /\ op = "format" /\ phase = "run" /\ AtPlaceholder /\ argIdx <= Len(args)
  /\ out' = out \o args[argIdx] /\ argIdx' = argIdx + 1 /\ pos' = pos + 2
  /\ UNCHANGED <<op, fmt, args, phase, outcome, hex, cont, hist>>

TooFew ==
  /\ op = "format" /\ phase = "run" /\ AtPlaceholder /\ argIdx > Len(args)
  /\ phase' = "done" /\ outcome' = "raise" /\ out' = <<>>
  /\ UNCHANGED <<op, fmt, args, pos, argIdx, hex, cont, hist>>

CopyChar ==
  /\ op = "format" /\ phase = "run" /\ pos <= Len(fmt) /\ ~AtPlaceholder
  /\ out' = Append(out, fmt[pos]) /\ pos' = pos + 1
  /\ UNCHANGED <<op, fmt, args, argIdx, phase, outcome, hex, cont, hist>>

EndOk ==
  /\ op = "format" /\ phase = "run" /\ pos > Len(fmt) /\ argIdx > Len(args)
  /\ phase' = "done"
  /\ UNCHANGED <<op, fmt, args, pos, argIdx, out, outcome, hex, cont, hist>>

TooMany ==
  /\ op = "format" /\ phase = "run" /\ pos > Len(fmt) /\ argIdx <= Len(args)
  /\ phase' = "done" /\ outcome' = "raise" /\ out' = <<>>
  /\ UNCHANGED <<op, fmt, args, pos, argIdx, hex, cont, hist>>

RaiseItem ==      \* the message is built by streaming one item after the other
  /\ op = "raise" /\ phase = "run" /\ argIdx <= Len(args)
  /\ out' = out \o ItemText(args[argIdx], hex) /\ argIdx' = argIdx + 1
  /\ hex' = (hex \/ args[argIdx].t = "h")
  /\ UNCHANGED <<op, fmt, args, pos, phase, outcome, cont, hist>>

RaiseThrow ==
  /\ op = "raise" /\ phase = "run" /\ argIdx > Len(args)
  /\ phase' = "done" /\ outcome' = "raise"
  /\ UNCHANGED <<op, fmt, args, pos, argIdx, out, hex, cont, hist>>

(* object level: what may follow a finished operation *)
Rec == [op |-> op, fmt |-> fmt, args |-> args, outcome |-> outcome, out |-> out, cont |-> cont]
Restart == pos' = 1 /\ argIdx' = 1 /\ out' = <<>> /\ phase' = "run" /\ outcome' = "ok" /\ hex' = FALSE
MayContinue == phase = "done" /\ Len(hist) + 1 < MaxOps

NextOp ==            \* an unrelated operation: a fresh formatter object, or a raise (fresh message stream)
  /\ MayContinue /\ hist' = Append(hist, Rec) /\ Restart /\ cont' = "new"
  /\ Choose(op', fmt', args')
RenderAgain ==       \* the same formatter object rendered once more: rendering consumes nothing
  /\ MayContinue /\ op = "format" /\ hist' = Append(hist, Rec) /\ Restart /\ cont' = "again"
  /\ UNCHANGED <<op, fmt, args>>
SupplyMore ==        \* one more argument for the same formatter object (operator % or args(...)), rendered again
  /\ MayContinue /\ op = "format" /\ Len(args) <= NumPlaceholders(fmt) /\ Len(args) < MaxArgs
  /\ hist' = Append(hist, Rec) /\ Restart /\ cont' \in {"mod", "args"}
  /\ \E v \in ArgVals : args' = Append(args, v)
  /\ UNCHANGED <<op, fmt>>

Step == Substitute \/ TooFew \/ CopyChar \/ EndOk \/ TooMany \/ RaiseItem \/ RaiseThrow
Next == Step \/ NextOp \/ RenderAgain \/ SupplyMore
Spec == Init /\ [][Next]_vars /\ WF_vars(Step)

--------------------------------------------------------------------------------------------------
Done == phase = "done"
Terminates == []<>Done

SumLen(ss) == Len(Concat(ss))

MachineIsMeaning ==
  Done =>
    IF op = "format" THEN [outcome |-> outcome, out |-> out] = FormatD(fmt, args)
    ELSE outcome = "raise" /\ out = MessageD(args)

FormatLaws ==
  Done /\ op = "format" =>
    LET k == CountHits(fmt, PH) IN
      /\ (outcome = "ok") = (Len(args) = k)                                  \* exact arity
      /\ outcome = "ok" => Len(out) + 2 * k = Len(fmt) + SumLen(args)        \* nothing lost, nothing added
      /\ outcome = "ok" /\ k = 0 => out = fmt                                \* no placeholder: verbatim
      /\ outcome = "ok" /\ (\A i \in 1..Len(args) : args[i] = PH) => out = fmt  \* "{}" as argument: identity, never rescanned

(* every operation of a history means what it means alone: earlier renders, earlier messages leave nothing behind *)
EveryOpIsMeaning ==
  \A k \in 1..Len(hist) :
    IF hist[k].op = "format" THEN [outcome |-> hist[k].outcome, out |-> hist[k].out] = FormatD(hist[k].fmt, hist[k].args)
    ELSE hist[k].outcome = "raise" /\ hist[k].out = MessageD(hist[k].args)
AgainIsSame ==
  \A k \in 2..Len(hist) : hist[k].cont = "again" => hist[k].out = hist[k - 1].out /\ hist[k].outcome = hist[k - 1].outcome

CaseRec == [ops |-> Append(hist, Rec)]
Emit == (Done /\ Len(hist) + 1 = MaxOps) => PrintT("CASE " \o ToJson(CaseRec))
=============================================================================
