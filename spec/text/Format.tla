------------------------------- MODULE Format -------------------------------
(* nitro::format and the message of nitro::raise  (property C08).                                  *)
(*                                                                                                  *)
(* Machine: a scanner over the format string, one step per character or per placeholder; argument  *)
(* texts are opaque and appended verbatim (never rescanned).  Meaning: the pieces of the format     *)
(* between `{}` occurrences spliced with the arguments.  Arity mismatch in either direction raises. *)
EXTENDS Naturals, Integers, Sequences, FiniteSets, Bytes, TLC, Json

CONSTANTS Fmts,      \* set of format strings (byte strings)
          ArgVals,   \* set of argument texts
          MaxArgs,   \* bound on the number of supplied arguments
          ItemVals,  \* set of raise items  [t |-> "s", v |-> bytes] or [t |-> "i", v |-> Int]
          MaxItems,
          Ops        \* subset of {"format", "raise"}

PH == <<123, 125>>    \* "{}"

--------------------------------------------------------------------------------------------------
(* meaning *)

RECURSIVE Pieces(_)
Pieces(f) ==
  LET p == Find(f, PH)
  IN IF p = 0 THEN <<f>> ELSE <<SubSeq(f, 1, p - 1)>> \o Pieces(Tail0(f, p + 2))

NumPlaceholders(f) == Len(Pieces(f)) - 1

RECURSIVE Splice(_, _)
Splice(pieces, args) ==    \* Len(pieces) = Len(args) + 1
  IF args = <<>> THEN pieces[1] ELSE pieces[1] \o args[1] \o Splice(Tail(pieces), Tail(args))

FormatD(f, args) ==
  IF Len(args) # NumPlaceholders(f) THEN [outcome |-> "raise", out |-> <<>>]
  ELSE [outcome |-> "ok", out |-> Splice(Pieces(f), args)]

(* decimal text of an integer *)
RECURSIVE NatText(_)
NatText(n) == IF n < 10 THEN <<48 + n>> ELSE NatText(n \div 10) \o <<48 + (n % 10)>>
IntText(n) == IF n < 0 THEN <<45>> \o NatText(0 - n) ELSE NatText(n)
ItemText(it) == IF it.t = "s" THEN it.v ELSE IntText(it.v)
RECURSIVE MessageD(_)
MessageD(items) == IF items = <<>> THEN <<>> ELSE ItemText(Head(items)) \o MessageD(Tail(items))

--------------------------------------------------------------------------------------------------
(* machine *)

VARIABLES op, fmt, args, pos, argIdx, out, phase, outcome
vars == <<op, fmt, args, pos, argIdx, out, phase, outcome>>

Init ==
  /\ pos = 1 /\ argIdx = 1 /\ out = <<>> /\ phase = "run" /\ outcome = "ok"
  /\ \/ /\ "format" \in Ops /\ op = "format" /\ fmt \in Fmts
        /\ \E n \in 0..MaxArgs : n <= NumPlaceholders(fmt) + 1 /\ args \in [1..n -> ArgVals]
     \/ /\ "raise" \in Ops /\ op = "raise" /\ fmt = <<>>
        /\ \E n \in 1..MaxItems : args \in [1..n -> ItemVals]

AtPlaceholder == pos + 1 <= Len(fmt) /\ fmt[pos] = 123 /\ fmt[pos + 1] = 125

Substitute ==
  /\ op = "format" /\ phase = "run" /\ AtPlaceholder /\ argIdx <= Len(args)
  /\ out' = out \o args[argIdx] /\ argIdx' = argIdx + 1 /\ pos' = pos + 2
  /\ UNCHANGED <<op, fmt, args, phase, outcome>>

TooFew ==
  /\ op = "format" /\ phase = "run" /\ AtPlaceholder /\ argIdx > Len(args)
  /\ phase' = "done" /\ outcome' = "raise" /\ out' = <<>>
  /\ UNCHANGED <<op, fmt, args, pos, argIdx>>

CopyChar ==
  /\ op = "format" /\ phase = "run" /\ pos <= Len(fmt) /\ ~AtPlaceholder
  /\ out' = Append(out, fmt[pos]) /\ pos' = pos + 1
  /\ UNCHANGED <<op, fmt, args, argIdx, phase, outcome>>

EndOk ==
  /\ op = "format" /\ phase = "run" /\ pos > Len(fmt) /\ argIdx > Len(args)
  /\ phase' = "done"
  /\ UNCHANGED <<op, fmt, args, pos, argIdx, out, outcome>>

TooMany ==
  /\ op = "format" /\ phase = "run" /\ pos > Len(fmt) /\ argIdx <= Len(args)
  /\ phase' = "done" /\ outcome' = "raise" /\ out' = <<>>
  /\ UNCHANGED <<op, fmt, args, pos, argIdx>>

RaiseItem ==      \* the message is built by streaming one item after the other
  /\ op = "raise" /\ phase = "run" /\ argIdx <= Len(args)
  /\ out' = out \o ItemText(args[argIdx]) /\ argIdx' = argIdx + 1
  /\ UNCHANGED <<op, fmt, args, pos, phase, outcome>>

RaiseThrow ==
  /\ op = "raise" /\ phase = "run" /\ argIdx > Len(args)
  /\ phase' = "done" /\ outcome' = "raise"
  /\ UNCHANGED <<op, fmt, args, pos, argIdx, out>>

Next == Substitute \/ TooFew \/ CopyChar \/ EndOk \/ TooMany \/ RaiseItem \/ RaiseThrow
Spec == Init /\ [][Next]_vars /\ WF_vars(Next)

--------------------------------------------------------------------------------------------------
Done == phase = "done"
Terminates == <>Done

SumLen(ss) == Len(Concat(ss))

MachineIsMeaning ==
  Done =>
    IF op = "format" THEN [outcome |-> outcome, out |-> out] = FormatD(fmt, args)
    ELSE outcome = "raise" /\ out = MessageD(args)

FormatLaws ==
  Done /\ op = "format" =>
    LET k == CountHits(fmt, PH) IN
      /\ (outcome = "ok") = (Len(args) = k)                                  \* exact arity
      /\ outcome = "ok" => Len(out) + 2 * k = Len(fmt) + SumLen(args)        \* nothing lost, nothing added
      /\ outcome = "ok" /\ k = 0 => out = fmt                                \* no placeholder: verbatim
      /\ outcome = "ok" /\ (\A i \in 1..Len(args) : args[i] = PH) => out = fmt  \* "{}" as argument: identity, never rescanned

CaseRec == [op |-> op, fmt |-> fmt, args |-> args, outcome |-> outcome, out |-> out]
Emit == Done => PrintT("CASE " \o ToJson(CaseRec))
=============================================================================
