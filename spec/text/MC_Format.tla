----------------------------- MODULE MC_Format -----------------------------
EXTENDS Format
LB == 123  RB == 125  A == 97
FAlpha == {LB, RB, A}
QFmts == StrUpTo(FAlpha, 5)
TFmts == StrUpTo(FAlpha, 7)
MCArgVals == {<<>>, <<120>>, <<LB, RB>>, <<LB>>, <<RB, LB>>}
MCItemVals == {[t |-> "s", v |-> <<>>], [t |-> "s", v |-> <<A, 98>>], [t |-> "s", v |-> <<LB, RB>>],
               [t |-> "s", v |-> <<32>>],
               [t |-> "i", v |-> 0], [t |-> "i", v |-> 7], [t |-> "i", v |-> -12], [t |-> "i", v |-> 1000],
               [t |-> "h", v |-> 255]}
(* histories: a formatter rendered, given more arguments, rendered again; messages raised one after the other *)
PHs == <<LB, RB>>
HFmts == {<<>>, PHs, <<A>> \o PHs, PHs \o PHs, <<LB>>, PHs \o <<RB>>}
HArgVals == {<<120>>, PHs, <<60, 120, 62>>}      \* "<x>": supplied by the driver as an object whose operator<< uses nitro::format itself
HItemVals == {[t |-> "s", v |-> <<A, 98>>], [t |-> "s", v |-> <<60, 120, 62>>], [t |-> "i", v |-> 255], [t |-> "i", v |-> 7], [t |-> "h", v |-> 255], [t |-> "h", v |-> 9]}
=============================================================================
