SPECIFICATION TSpec
CONSTANTS
  Fmts = {}
  ArgVals = {}
  MaxArgs = 0
  ItemVals = {}
  MaxItems = 0
  MaxOps = 0
  Ops = {}
INVARIANTS FormatLaws EveryOpIsMeaning TAgainIsSame
CONSTRAINT Track
POSTCONDITION Report
CHECK_DEADLOCK FALSE
