SPECIFICATION TSpec
CONSTANTS
  Fmts = {}
  ArgVals = {}
  MaxArgs = 0
  ItemVals = {}
  MaxItems = 0
  Ops = {}
INVARIANTS FormatLaws
CONSTRAINT Track
POSTCONDITION Report
CHECK_DEADLOCK FALSE
