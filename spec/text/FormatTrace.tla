---------------------------- MODULE FormatTrace ----------------------------
(* code -> spec for C08: every recorded formatting call / raised message must be the terminal     *)
(* state Format assigns to the logged inputs, through every way of reading the text.              *)
EXTENDS Format, TraceIO

VARIABLE l

Explained(ev) ==
  CASE ev.e = "format" ->
         LET d == FormatD(ev.fmt, ev.args) IN
           /\ ev.outcome = d.outcome
           /\ d.outcome = "ok" => ev.out = d.out /\ ev.conv = d.out /\ ev.stream = d.out
           /\ d.outcome = "raise" => ev.cls = "nitro_exception"
    [] ev.e = "raise" ->
         /\ ev.outcome = "raise" /\ ev.cls = "nitro_exception"
         /\ ev.out = MessageD(ev.args)
    [] OTHER -> FALSE

TInit ==
  /\ l = 1 /\ op = "none" /\ fmt = <<>> /\ args = <<>> /\ pos = 1 /\ argIdx = 1 /\ out = <<>>
  /\ phase = "run" /\ outcome = "ok" /\ hex = FALSE /\ cont = "new" /\ hist = <<>>

TReset ==
  /\ l <= TraceLen /\ TraceLog[l].e = "Reset"
  /\ l' = l + 1 /\ op' = "none" /\ fmt' = <<>> /\ args' = <<>> /\ pos' = 1 /\ argIdx' = 1 /\ out' = <<>>
  /\ phase' = "run" /\ outcome' = "ok" /\ hex' = FALSE /\ cont' = "new" /\ hist' = <<>>

TCall ==
  /\ l <= TraceLen /\ TraceLog[l].e # "Reset"
  /\ LET ev == TraceLog[l] IN
       /\ Explained(ev)
       \* an event that continues the formatter object of the previous event is a step RenderAgain / SupplyMore
       /\ ev.cont \in {"new", "again", "mod", "args"}
       /\ ev.cont # "new" => op = "format" /\ ev.e = "format" /\ ev.fmt = fmt
       /\ ev.cont = "again" => ev.args = args
       /\ ev.cont \in {"mod", "args"} => Len(ev.args) = Len(args) + 1 /\ SubSeq(ev.args, 1, Len(args)) = args
       /\ cont' = ev.cont /\ hex' = FALSE
       /\ hist' = (IF op = "none" THEN <<>> ELSE <<Rec>>)     \* the previous operation (AgainIsSame looks one back)
       /\ op' = ev.e /\ fmt' = ev.fmt /\ args' = ev.args
       /\ out' = (IF ev.e = "format" THEN FormatD(ev.fmt, ev.args).out ELSE MessageD(ev.args))
       /\ outcome' = (IF ev.e = "format" THEN FormatD(ev.fmt, ev.args).outcome ELSE "raise")
  /\ phase' = "done" /\ pos' = 1 /\ argIdx' = 1
  /\ l' = l + 1

TNext == TReset \/ TCall
TSpec == TInit /\ [][TNext]_<<vars, l>>
(* the same formatter rendered again gives what it gave (the previous operation is hist[1]) *)
TAgainIsSame == cont = "again" /\ hist # <<>> => out = hist[1].out /\ outcome = hist[1].outcome
Track == TrackCursor(l)
Report == ReportMatched
=============================================================================
