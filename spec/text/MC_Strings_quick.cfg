SPECIFICATION Spec
CONSTANTS
  Hays <- QHays
  Needles <- QNeedles
  Patterns <- QPatterns
  Repls <- QRepls
  ElemLists <- QElemLists
  Infixes <- QInfixes
  Ops = {"split", "replace", "join", "starts"}
INVARIANTS TypeOK MachineIsMeaning SplitLaws ReplaceLaws JoinLaws Emit
PROPERTY Terminates
CHECK_DEADLOCK FALSE
