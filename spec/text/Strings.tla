------------------------------ MODULE Strings ------------------------------
(* nitro::lang::split / replace_all / join / starts_with  (property C17).                          *)
(*                                                                                                  *)
(* Two levels.  The *meaning* of each function is a recursive definition written from the property *)
(* statement (SplitD, ReplaceD, JoinD, StartsWith).  The *machine* is shaped like the code: a scan *)
(* loop with one step per hit (split, replace_all), a fold with one step per element (join).  TLC   *)
(* checks on every bounded input that the machine terminates in the meaning and that the laws of   *)
(* the property hold; the terminal states are exported as cases and replayed on the real functions.*)
(*                                                                                                  *)
(* Deliberately open (the property does not settle it):                                            *)
(*   - replace_all with an empty pattern: only termination is required, the result is free;        *)
(*   - split with an empty needle raises (as the code documents).                                  *)
EXTENDS Naturals, Sequences, FiniteSets, Bytes, TLC, Json

CONSTANTS Hays,      \* set of byte strings used as haystack / subject / full string
          Needles,   \* non-empty separators
          Patterns,  \* patterns for replace_all (may contain <<>>)
          Repls,     \* replacements
          ElemLists, \* set of sequences of byte strings for join
          Infixes,   \* infixes for join
          Ops        \* subset of {"split","replace","join","starts"} explored by this model

--------------------------------------------------------------------------------------------------
(* meaning *)

RECURSIVE SplitD(_, _)
SplitD(h, n) ==
  LET p == Find(h, n)
  IN IF p = 0 THEN <<h>> ELSE <<SubSeq(h, 1, p - 1)>> \o SplitD(Tail0(h, p + Len(n)), n)

RECURSIVE ReplaceD(_, _, _)
ReplaceD(s, pat, rep) ==       \* pat # <<>>
  LET p == Find(s, pat)
  IN IF p = 0 THEN s ELSE SubSeq(s, 1, p - 1) \o rep \o ReplaceD(Tail0(s, p + Len(pat)), pat, rep)

JoinD(elems, infix) == Glue(SelectSeq(elems, LAMBDA e : e # <<>>), infix)
(* join is a template over the element type: an element is whatever can be streamed, and each element is written to  *)
(* a stream of its own - nothing an element does to its stream is seen by the next one, and an element whose own      *)
(* operator<< is written with join is as good as any other (formatting is re-entrant).  Element kinds of the drivers:  *)
(* "s" text, "i" integer, "h" a type that prints hexadecimal and leaves its stream in that mode, "j" a list type that  *)
(* prints itself as "[" join(inner, ",") "]".                                                                          *)
ElemText(e) == CASE e.t = "s" -> e.v
                 [] e.t = "i" -> IntText(e.v)
                 [] e.t = "h" -> HexText(e.v)
                 [] e.t = "j" -> <<91>> \o JoinD(e.v, <<44>>) \o <<93>>
ElemTexts(items) == [k \in 1..Len(items) |-> ElemText(items[k])]
JoinItemsD(items, infix) == JoinD(ElemTexts(items), infix)

--------------------------------------------------------------------------------------------------
(* machine *)

VARIABLES op,      \* which function
          a1, a2, a3,  \* its arguments
          pos,     \* scan position (1-based) / element index
          acc,     \* result under construction: sequence of pieces (split) or text (replace, join)
          first,   \* join: nothing emitted yet
          phase,   \* "run" | "done"
          outcome  \* "ok" | "raise" | "free" (terminated, result not constrained)

vars == <<op, a1, a2, a3, pos, acc, first, phase, outcome>>

Init ==
  /\ phase = "run" /\ outcome = "ok" /\ pos = 1 /\ first = TRUE
  /\ \/ /\ "split" \in Ops /\ op = "split" /\ a1 \in Hays /\ a2 \in Needles \cup {<<>>} /\ a3 = <<>> /\ acc = <<>>
     \/ /\ "replace" \in Ops /\ op = "replace" /\ a1 \in Hays /\ a2 \in Patterns /\ a3 \in Repls /\ acc = <<>>
     \/ /\ "join" \in Ops /\ op = "join" /\ a1 \in ElemLists /\ a2 \in Infixes /\ a3 = <<>> /\ acc = <<>>
     \/ /\ "starts" \in Ops /\ op = "starts" /\ a1 \in Hays /\ a3 = <<>> /\ acc = <<>>
        \* candidates: every prefix of the full string, one byte more, and the short patterns (prefix or not)
        /\ a2 \in { SubSeq(a1, 1, k) : k \in 0..Len(a1) } \cup { a1 \o <<x>> : x \in {97, 32} } \cup Patterns

SplitRaise ==
  /\ op = "split" /\ phase = "run" /\ a2 = <<>>
  /\ phase' = "done" /\ outcome' = "raise"
  /\ UNCHANGED <<op, a1, a2, a3, pos, acc, first>>

SplitHit ==
  /\ op = "split" /\ phase = "run" /\ a2 # <<>>
  /\ LET p == FindFrom(a1, a2, pos) IN
       /\ p # 0
       /\ acc' = Append(acc, SubSeq(a1, pos, p - 1))
       /\ pos' = p + Len(a2)
  /\ UNCHANGED <<op, a1, a2, a3, first, phase, outcome>>

SplitLast ==
  /\ op = "split" /\ phase = "run" /\ a2 # <<>>
  /\ FindFrom(a1, a2, pos) = 0
  /\ acc' = Append(acc, Tail0(a1, pos))
  /\ phase' = "done"
  /\ UNCHANGED <<op, a1, a2, a3, pos, first, outcome>>

ReplaceFree ==   \* empty pattern: the property demands only that the call returns
  /\ op = "replace" /\ phase = "run" /\ a2 = <<>>
  /\ phase' = "done" /\ outcome' = "free"
  /\ UNCHANGED <<op, a1, a2, a3, pos, acc, first>>

ReplaceHit ==
  /\ op = "replace" /\ phase = "run" /\ a2 # <<>>
  /\ LET p == FindFrom(a1, a2, pos) IN
       /\ p # 0
       /\ acc' = acc \o SubSeq(a1, pos, p - 1) \o a3
       /\ pos' = p + Len(a2)
  /\ UNCHANGED <<op, a1, a2, a3, first, phase, outcome>>

ReplaceLast ==
  /\ op = "replace" /\ phase = "run" /\ a2 # <<>>
  /\ FindFrom(a1, a2, pos) = 0
  /\ acc' = acc \o Tail0(a1, pos)
  /\ phase' = "done"
  /\ UNCHANGED <<op, a1, a2, a3, pos, first, outcome>>

JoinStep ==
  /\ op = "join" /\ phase = "run" /\ pos <= Len(a1)
  /\ LET e == a1[pos] IN
       IF e = <<>> THEN UNCHANGED <<acc, first>>
       ELSE /\ acc' = (IF first THEN e ELSE acc \o a2 \o e)
            /\ first' = FALSE
  /\ pos' = pos + 1
  /\ UNCHANGED <<op, a1, a2, a3, phase, outcome>>

JoinEnd ==
  /\ op = "join" /\ phase = "run" /\ pos > Len(a1)
  /\ phase' = "done"
  /\ UNCHANGED <<op, a1, a2, a3, pos, acc, first, outcome>>

StartsStep ==
  /\ op = "starts" /\ phase = "run"
  /\ acc' = (IF StartsWith(a1, a2) THEN <<1>> ELSE <<0>>)
  /\ phase' = "done"
  /\ UNCHANGED <<op, a1, a2, a3, pos, first, outcome>>

Next == SplitRaise \/ SplitHit \/ SplitLast \/ ReplaceFree \/ ReplaceHit \/ ReplaceLast
        \/ JoinStep \/ JoinEnd \/ StartsStep

Spec == Init /\ [][Next]_vars /\ WF_vars(Next)

--------------------------------------------------------------------------------------------------
(* properties *)

Done == phase = "done"

(* "returns for every input" *)
Terminates == <>Done

(* the machine computes the meaning *)
MachineIsMeaning ==
  Done /\ outcome = "ok" =>
    CASE op = "split"   -> acc = SplitD(a1, a2)
      [] op = "replace" -> acc = ReplaceD(a1, a2, a3)
      [] op = "join"    -> acc = JoinD(a1, a2)
      [] op = "starts"  -> acc = (IF StartsWith(a1, a2) THEN <<1>> ELSE <<0>>)

(* the laws of the property, stated on the result alone *)
SplitLaws ==
  Done /\ op = "split" /\ outcome = "ok" =>
    /\ Glue(acc, a2) = a1                               \* nothing is lost
    /\ Len(acc) = CountHits(a1, a2) + 1                 \* one more piece than hits
    /\ \A i \in 1..Len(acc) : Find(acc[i], a2) = 0      \* no piece contains the separator

ReplaceLaws ==
  Done /\ op = "replace" /\ outcome = "ok" =>
    /\ acc = Glue(SplitD(a1, a2), a3)                   \* single pass = split, then glue with replacement
    /\ Len(acc) + CountHits(a1, a2) * Len(a2) = Len(a1) + CountHits(a1, a2) * Len(a3)

JoinLaws ==
  Done /\ op = "join" =>
    LET ne == SelectSeq(a1, LAMBDA e : e # <<>>) IN
      /\ acc = Glue(ne, a2)
      /\ Len(acc) = (IF ne = <<>> THEN 0 ELSE Len(Concat(ne)) + (Len(ne) - 1) * Len(a2))
      /\ (ne # <<>> => StartsWith(acc, ne[1]))          \* no leading infix
      /\ (ne # <<>> => Tail0(acc, Len(acc) - Len(ne[Len(ne)]) + 1) = ne[Len(ne)])  \* last element untouched

TypeOK ==
  /\ phase \in {"run", "done"} /\ outcome \in {"ok", "raise", "free"}
  /\ pos \in Nat

(* export of terminal states as conformance cases *)
CaseRec == [op |-> op, a1 |-> a1, a2 |-> a2, a3 |-> a3, outcome |-> outcome, out |-> acc]
Emit == Done => PrintT("CASE " \o ToJson(CaseRec))
=============================================================================
