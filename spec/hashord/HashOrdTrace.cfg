SPECIFICATION TSpec
CONSTRAINT Track
POSTCONDITION Report
CHECK_DEADLOCK FALSE
