SPECIFICATION Spec
CONSTANTS
  Dom = {0, 1}
  Arity = 2
  Reps = {0, 1}
  Buckets = {0, 1}
  Coherent = TRUE
INVARIANTS FindsExactly NoDuplicates LookupAnswer
CHECK_DEADLOCK FALSE
