------------------------------- MODULE HashOrd -------------------------------
(* Property C16: hashing agrees with equality; the generated comparison operators are the            *)
(* lexicographic order of the member tuple; hash containers find exactly the inserted keys.           *)
(*                                                                                                    *)
(* A value is its member tuple (a sequence of integers: every component of the C++ value is mapped to  *)
(* its rank in its own domain) together with a representation tag: different representations of one    *)
(* value (the two signed zeros of a floating point member) are equal and must hash equal.              *)
(*                                                                                                    *)
(* Design level: a bucket-structured hash set over an *arbitrary* hash function H.  TLC shows that      *)
(* lookups are exact for every H that is coherent with equality (and, as a negative control, that an   *)
(* incoherent H loses keys).  Code level: HashOrdTrace binds observed comparisons and hashes.           *)
EXTENDS HashOrdBase, TLC, Json

CONSTANTS Dom,        \* component values
          Arity,      \* length of the member tuple
          Reps,       \* representation tags, e.g. {0, 1}
          Buckets,    \* range of the hash function in the design model
          Coherent    \* TRUE: only hash functions that respect equality are considered

Tuples == [1..Arity -> Dom]
Vals == [t : Tuples, r : Reps]
Eq(a, b) == a.t = b.t
Lt(a, b) == LexLt(a.t, b.t)

(* the lexicographic order is a strict total order: exactly one of <, ==, > holds, and < is transitive *)
ASSUME \A x, y \in Tuples : (IF LexLt(x, y) THEN 1 ELSE 0) + (IF x = y THEN 1 ELSE 0) + (IF LexLt(y, x) THEN 1 ELSE 0) = 1
ASSUME \A x, y, z \in Tuples : LexLt(x, y) /\ LexLt(y, z) => LexLt(x, z)

VARIABLES H,          \* the hash function of this behaviour: [Vals -> Buckets]
          bucket,     \* [Buckets -> set of stored values]
          keys,       \* ghost: the tuples that were inserted and not erased
          last

vars == <<H, bucket, keys, last>>

Respects(h) == \A a, b \in Vals : Eq(a, b) => h[a] = h[b]
Init == /\ H \in [Vals -> Buckets] /\ (Coherent => Respects(H))
        /\ bucket = [b \in Buckets |-> {}] /\ keys = {} /\ last = [op |-> "init", v |-> <<>>, found |-> FALSE]

Stored(v) == \E w \in bucket[H[v]] : Eq(w, v)          \* a lookup inspects only the bucket of H(v)

Insert(v) == /\ v \in Vals
             /\ bucket' = IF Stored(v) THEN bucket ELSE [bucket EXCEPT ![H[v]] = @ \cup {v}]
             /\ keys' = keys \cup {v.t} /\ last' = [op |-> "Insert", v |-> v, found |-> Stored(v)] /\ UNCHANGED H
Find(v) == /\ v \in Vals /\ last' = [op |-> "Find", v |-> v, found |-> Stored(v)] /\ UNCHANGED <<H, bucket, keys>>
Erase(v) == /\ v \in Vals
            /\ bucket' = [bucket EXCEPT ![H[v]] = { w \in @ : ~Eq(w, v) }]
            /\ keys' = keys \ {v.t} /\ last' = [op |-> "Erase", v |-> v, found |-> Stored(v)] /\ UNCHANGED H
Next == \E v \in Vals : Insert(v) \/ Find(v) \/ Erase(v)
Spec == Init /\ [][Next]_vars

(* hash containers find every inserted key and only those *)
FindsExactly == \A v \in Vals : Stored(v) <=> v.t \in keys
NoDuplicates == \A b \in Buckets : \A v, w \in bucket[b] : Eq(v, w) => v = w
LookupAnswer == last.op = "Find" => (last.found <=> last.v.t \in keys)
=============================================================================
