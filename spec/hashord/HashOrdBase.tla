----------------------------- MODULE HashOrdBase -----------------------------
(* the order on member tuples shared by HashOrd (design) and HashOrdTrace (observations) *)
EXTENDS Naturals, Integers, Sequences, FiniteSets
LexLt(x, y) == \E k \in 1..Len(x) : (\A j \in 1..(k - 1) : x[j] = y[j]) /\ x[k] < y[k]
=============================================================================
