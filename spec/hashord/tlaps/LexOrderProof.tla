--------------------------- MODULE LexOrderProof ---------------------------
(* TLAPS proof (unbounded, any tuple length, components any integers) that the lexicographic order on member     *)
(* tuples used by HashOrd / HashOrdTrace is a strict total order: irreflexive, transitive, and total.  TLC checks  *)
(* the same laws on the bounded grid (ASSUMEs of HashOrd.tla); this removes the bound.                             *)
EXTENDS Integers, TLAPS

LexLt(n, x, y) == \E k \in 1..n : (\A j \in 1..(k - 1) : x[j] = y[j]) /\ x[k] < y[k]
Tup(n) == [1..n -> Int]

THEOREM Irreflexive == \A n \in Nat : \A x \in Tup(n) : ~LexLt(n, x, x)
  BY DEF LexLt, Tup

THEOREM Transitive ==
  \A n \in Nat : \A x, y, z \in Tup(n) : LexLt(n, x, y) /\ LexLt(n, y, z) => LexLt(n, x, z)
<1> SUFFICES ASSUME NEW n \in Nat, NEW x \in Tup(n), NEW y \in Tup(n), NEW z \in Tup(n),
                    LexLt(n, x, y), LexLt(n, y, z)
             PROVE  LexLt(n, x, z)
  OBVIOUS
<1>1. PICK k1 \in 1..n : (\A j \in 1..(k1 - 1) : x[j] = y[j]) /\ x[k1] < y[k1]
  BY DEF LexLt
<1>2. PICK k2 \in 1..n : (\A j \in 1..(k2 - 1) : y[j] = z[j]) /\ y[k2] < z[k2]
  BY DEF LexLt
<1>3. CASE k1 <= k2
  <2>1. \A j \in 1..(k1 - 1) : x[j] = z[j]
    BY <1>1, <1>2, <1>3
  <2>2. x[k1] < z[k1]
    <3>1. CASE k1 = k2
      BY <1>1, <1>2, <3>1 DEF Tup
    <3>2. CASE k1 < k2
      BY <1>1, <1>2, <3>2 DEF Tup
    <3> QED BY <1>3, <3>1, <3>2
  <2> QED BY <2>1, <2>2 DEF LexLt
<1>4. CASE k2 < k1
  <2>1. \A j \in 1..(k2 - 1) : x[j] = z[j]
    BY <1>1, <1>2, <1>4
  <2>2. x[k2] < z[k2]
    BY <1>1, <1>2, <1>4 DEF Tup
  <2> QED BY <2>1, <2>2 DEF LexLt
<1> QED BY <1>3, <1>4

(* totality: two different tuples are ordered one way or the other.  Stated with the witness "first index at      *)
(* which they differ": if k is such an index, the order is decided there.                                        *)
THEOREM DecidedAtFirstDifference ==
  \A n \in Nat : \A x, y \in Tup(n) : \A k \in 1..n :
     (\A j \in 1..(k - 1) : x[j] = y[j]) /\ x[k] # y[k] => LexLt(n, x, y) \/ LexLt(n, y, x)
  BY DEF LexLt, Tup

THEOREM AtMostOne == \A n \in Nat : \A x, y \in Tup(n) : ~(LexLt(n, x, y) /\ LexLt(n, y, x))
<1> SUFFICES ASSUME NEW n \in Nat, NEW x \in Tup(n), NEW y \in Tup(n), LexLt(n, x, y), LexLt(n, y, x)
             PROVE  FALSE
  OBVIOUS
<1>1. PICK k1 \in 1..n : (\A j \in 1..(k1 - 1) : x[j] = y[j]) /\ x[k1] < y[k1]
  BY DEF LexLt
<1>2. PICK k2 \in 1..n : (\A j \in 1..(k2 - 1) : y[j] = x[j]) /\ y[k2] < x[k2]
  BY DEF LexLt
<1>3. CASE k1 < k2
  BY <1>1, <1>2, <1>3 DEF Tup
<1>4. CASE k2 < k1
  BY <1>1, <1>2, <1>4 DEF Tup
<1>5. CASE k1 = k2
  BY <1>1, <1>2, <1>5 DEF Tup
<1> QED BY <1>3, <1>4, <1>5
=============================================================================
