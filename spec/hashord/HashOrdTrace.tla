---------------------------- MODULE HashOrdTrace ----------------------------
(* code -> spec for C16.  Events recorded from the real types (tuple_operators-derived classes, tuples,  *)
(* pairs, variants, smart pointers; unordered_set/map keyed by them):                                    *)
(*   Cmp   the six comparison results of a pair of values, with their member tuples                       *)
(*   Hash  nitro::lang::hash of a value: the hash function is *inferred* from the trace -- a value may    *)
(*         be observed many times and through several representations, always with the same hash          *)
(*   SetInsert / SetFind / SetErase on a nitro::lang::unordered_set: compared with an abstract set         *)
(*   Done  end of a family: the hash must depend on every component and on component order                 *)
(* Hash words are 64-bit and travel as three non-negative chunks.                                         *)
EXTENDS HashOrdBase, TraceIO

VARIABLES l, seen, members
(* seen: set of [fam, v, h] ; members: [fam -> set of member tuples] as a set of <<fam, v>> pairs *)
Ev == TraceLog[l]

TInit == l = 1 /\ seen = {} /\ members = {}
TReset == Ev.e = "Reset" /\ seen' = {} /\ members' = {} /\ l' = l + 1

B(x) == IF x THEN 1 ELSE 0
TCmp ==
  /\ Ev.e = "Cmp"
  /\ LET lt == LexLt(Ev.a, Ev.b)  eq == Ev.a = Ev.b  gt == LexLt(Ev.b, Ev.a) IN
       /\ Ev.lt = lt /\ Ev.eq = eq /\ Ev.gt = gt
       /\ Ev.le = (lt \/ eq) /\ Ev.ge = (gt \/ eq) /\ Ev.ne = ~eq
       /\ B(Ev.lt) + B(Ev.eq) + B(Ev.gt) = 1                         \* exactly one of <, ==, >
  /\ UNCHANGED <<seen, members>> /\ l' = l + 1

THash ==
  /\ Ev.e = "Hash"
  /\ \A s \in seen : (s.fam = Ev.fam /\ s.v = Ev.v) => s.h = Ev.h    \* equal values hash equal
  /\ seen' = seen \cup {[fam |-> Ev.fam, v |-> Ev.v, h |-> Ev.h]}
  /\ UNCHANGED members /\ l' = l + 1

Has(f, v) == <<f, v>> \in members
TSetInsert ==
  /\ Ev.e = "SetInsert" /\ Ev.inserted = ~Has(Ev.fam, Ev.v)
  /\ members' = members \cup {<<Ev.fam, Ev.v>>}
  /\ Ev.size = Cardinality({ m \in members' : m[1] = Ev.fam })
  /\ UNCHANGED seen /\ l' = l + 1
TSetFind ==
  /\ Ev.e = "SetFind" /\ Ev.found = Has(Ev.fam, Ev.v)
  /\ UNCHANGED <<seen, members>> /\ l' = l + 1
TSetErase ==
  /\ Ev.e = "SetErase" /\ Ev.erased = Has(Ev.fam, Ev.v)
  /\ members' = members \ {<<Ev.fam, Ev.v>>}
  /\ Ev.size = Cardinality({ m \in members' : m[1] = Ev.fam })
  /\ UNCHANGED seen /\ l' = l + 1

(* sensitivity: among the observed pairs that differ in exactly one position k, fewer than 10% collide;  *)
(* likewise for pairs that are each other's component swap (positions i, j holding the same kind)         *)
DiffOnlyAt(a, b, k) == Len(a) = Len(b) /\ a[k] # b[k] /\ \A j \in 1..Len(a) : j # k => a[j] = b[j]
Fam(f) == { s \in seen : s.fam = f }
TDone ==
  /\ Ev.e = "Done"
  /\ LET S == Fam(Ev.fam) IN
       /\ \A k \in 1..Ev.arity :
            LET P == { <<s, t>> \in S \X S : DiffOnlyAt(s.v, t.v, k) }
                Coll == { p \in P : p[1].h = p[2].h }
            IN 10 * Cardinality(Coll) <= Cardinality(P)
       /\ \A i \in 1..Len(Ev.swap) :
            LET x == Ev.swap[i][1]  y == Ev.swap[i][2]
                P == { <<s, t>> \in S \X S : s.v[x] # s.v[y] /\ t.v = [s.v EXCEPT ![x] = s.v[y], ![y] = s.v[x]] }
                Coll == { p \in P : p[1].h = p[2].h }
            IN 10 * Cardinality(Coll) <= Cardinality(P)
  /\ UNCHANGED <<seen, members>> /\ l' = l + 1

TNext == l <= TraceLen /\ (TReset \/ TCmp \/ THash \/ TSetInsert \/ TSetFind \/ TSetErase \/ TDone)
TSpec == TInit /\ [][TNext]_<<l, seen, members>>
Track == TrackCursor(l)
Report == ReportMatched
=============================================================================
