SPECIFICATION Spec
CONSTANTS
  EnvNames = {"NV_A", "NV_B"}
  EnvVals = {"", "x", " sp =; "}
  Defaults = {"", "dflt"}
  Libs = {}
  NH = 1
  MaxInst = 0
INVARIANTS FaithfulRead
PROPERTY FailuresChangeNothing
ACTION_CONSTRAINT EmitEdge
VIEW View
CHECK_DEADLOCK FALSE
