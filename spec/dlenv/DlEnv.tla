-------------------------------- MODULE DlEnv --------------------------------
(* Environment and dlopen wrappers (property C19).                                                    *)
(* Part 1: nitro::env::get -- the environment is a map name -> (unset | text); reading returns the     *)
(*   exact text whenever the variable is set (also to the empty string), the default only when unset,  *)
(*   and the no-default form raises when unset.                                                        *)
(* Part 2: nitro::dl -- every successful open is one *instance* of a loaded library.  dl objects,      *)
(*   symbols obtained from them and copies of either hold the instance; it is closed exactly once,     *)
(*   after its last holder is gone, in whatever order the holders go.  Failed opens and failed symbol  *)
(*   lookups raise the dl exception (with the loader's diagnostic) and change nothing.  A symbol is      *)
(*   looked up in the library of the dl object it is asked from and nowhere else: both libraries define  *)
(*   "common" (and a call tells which one answered), each defines one name the other lacks.              *)
EXTENDS Naturals, Sequences, FiniteSets, TLC, Json

CONSTANTS EnvNames, EnvVals,     \* variable names; texts (the empty text "" among them)
          Defaults,
          Libs,                   \* libraries that exist
          NH,                     \* holder slots (dl objects and symbols)
          MaxInst                 \* successful opens

Unset == "<unset>"

VARIABLES env,        \* [EnvNames -> EnvVals \cup {Unset}]
          holder,     \* [1..NH -> [kind: "none"|"dl"|"sym", inst]]
          inst,       \* sequence of [lib, closes]
          last

vars == <<env, holder, inst, last>>

None == [kind |-> "none", inst |-> 0, sym |-> ""]
SymNames == {"common", "own_L1", "own_L2", "nowhere"}
Defines(lib, name) == name = "common" \/ name = "own_" \o lib
Init == /\ env = [n \in EnvNames |-> Unset] /\ holder = [h \in 1..NH |-> None] /\ inst = <<>>
        /\ last = [op |-> "init", args |-> <<>>, out |-> "ok", val |-> ""]

Ok(o, a, v) == last' = [op |-> o, args |-> a, out |-> "ok", val |-> v]
Raise(o, a, cls) == last' = [op |-> o, args |-> a, out |-> cls, val |-> ""]

SetEnv(n, v) == /\ n \in EnvNames /\ v \in EnvVals /\ env' = [env EXCEPT ![n] = v] /\ Ok("SetEnv", <<n, v>>, "") /\ UNCHANGED <<holder, inst>>
UnsetEnv(n) == /\ n \in EnvNames /\ env' = [env EXCEPT ![n] = Unset] /\ Ok("UnsetEnv", <<n>>, "") /\ UNCHANGED <<holder, inst>>
Get(n, d) == /\ n \in EnvNames /\ d \in Defaults
             /\ Ok("Get", <<n, d>>, IF env[n] = Unset THEN d ELSE env[n]) /\ UNCHANGED <<env, holder, inst>>
GetNoDefault(n) == /\ n \in EnvNames
                   /\ IF env[n] = Unset THEN Raise("GetNoDefault", <<n>>, "nitro_exception") ELSE Ok("GetNoDefault", <<n>>, env[n])
                   /\ UNCHANGED <<env, holder, inst>>

Holders(i) == { h \in 1..NH : holder[h].inst = i }
(* releasing a holder closes the instance iff it was the last one *)
Release(hs, ins, h) ==
  LET i == hs[h].inst IN
    IF i # 0 /\ { g \in 1..NH : g # h /\ hs[g].inst = i } = {} THEN [ins EXCEPT ![i].closes = @ + 1] ELSE ins

Open(h, lib) ==      \* slot h := dl(lib); a dl object already in the slot is destroyed first... the slot must be free
  /\ h \in 1..NH /\ holder[h].kind = "none"
  /\ IF lib \in Libs
     THEN /\ Len(inst) < MaxInst
          /\ inst' = Append(inst, [lib |-> lib, closes |-> 0])
          /\ holder' = [holder EXCEPT ![h] = [kind |-> "dl", inst |-> Len(inst) + 1, sym |-> ""]]
          /\ Ok("Open", <<h, lib>>, "")
     ELSE Raise("Open", <<h, lib>>, "dl_exception") /\ UNCHANGED <<holder, inst>>
  /\ UNCHANGED env

Load(h, d, name) ==   \* slot h := holder[d].load(name): resolved in the library of holder[d], nowhere else
  /\ h \in 1..NH /\ d \in 1..NH /\ holder[h].kind = "none" /\ holder[d].kind = "dl" /\ name \in SymNames
  /\ IF Defines(inst[holder[d].inst].lib, name)
     THEN holder' = [holder EXCEPT ![h] = [kind |-> "sym", inst |-> holder[d].inst, sym |-> name]] /\ Ok("Load", <<h, d, name>>, "")
     ELSE Raise("Load", <<h, d, name>>, "dl_exception") /\ UNCHANGED holder
  /\ UNCHANGED <<env, inst>>

Copy(h, g) ==        \* slot h := copy of the dl object or symbol in slot g
  /\ h \in 1..NH /\ g \in 1..NH /\ holder[h].kind = "none" /\ holder[g].kind # "none"
  /\ holder' = [holder EXCEPT ![h] = holder[g]] /\ Ok("Copy", <<h, g>>, "") /\ UNCHANGED <<env, inst>>

(* assignment between holders of the same kind: the target lets go of what it held (closing it if it was the  *)
(* last holder) and holds what the source holds; after a move assignment the source object is destroyed at once  *)
AssignCopy(h, g) ==
  /\ h \in 1..NH /\ g \in 1..NH /\ h # g /\ holder[h].kind # "none" /\ holder[h].kind = holder[g].kind
  /\ LET hs == [holder EXCEPT ![h] = holder[g]] IN
       /\ inst' = IF holder[h].inst # holder[g].inst /\ { x \in 1..NH : x # h /\ holder[x].inst = holder[h].inst } = {}
                  THEN [inst EXCEPT ![holder[h].inst].closes = @ + 1] ELSE inst
       /\ holder' = hs
  /\ Ok("AssignCopy", <<h, g>>, "") /\ UNCHANGED env

AssignMove(h, g) ==
  /\ h \in 1..NH /\ g \in 1..NH /\ h # g /\ holder[h].kind # "none" /\ holder[h].kind = holder[g].kind
  /\ inst' = IF holder[h].inst # holder[g].inst /\ { x \in 1..NH : x # h /\ holder[x].inst = holder[h].inst } = {}
             THEN [inst EXCEPT ![holder[h].inst].closes = @ + 1] ELSE inst
  /\ holder' = [holder EXCEPT ![h] = holder[g], ![g] = None]
  /\ Ok("AssignMove", <<h, g>>, "") /\ UNCHANGED env

Call(s) ==           \* calling a symbol: the library must still be mapped, and it is the library it was loaded from that answers
  /\ s \in 1..NH /\ holder[s].kind = "sym"
  /\ Ok("Call", <<s>>, inst[holder[s].inst].lib \o ":" \o holder[s].sym) /\ UNCHANGED <<env, holder, inst>>

Destroy(h) ==
  /\ h \in 1..NH /\ holder[h].kind # "none"
  /\ inst' = Release(holder, inst, h) /\ holder' = [holder EXCEPT ![h] = None]
  /\ Ok("Destroy", <<h>>, "") /\ UNCHANGED env

Next ==
  \/ \E n \in EnvNames : (\E v \in EnvVals : SetEnv(n, v)) \/ UnsetEnv(n) \/ GetNoDefault(n) \/ \E d \in Defaults : Get(n, d)
  \/ \E h \in 1..NH : (\E lib \in Libs \cup {"missing"} : Open(h, lib)) \/ Destroy(h) \/ Call(h)
                      \/ \E g \in 1..NH : Copy(h, g) \/ AssignCopy(h, g) \/ AssignMove(h, g) \/ \E nm \in SymNames : Load(h, g, nm)
Spec == Init /\ [][Next]_vars

------------------------------------------------------------------------------------------------------
MappedWhileHeld == \A i \in 1..Len(inst) : Holders(i) # {} => inst[i].closes = 0
ClosedOnce == \A i \in 1..Len(inst) : inst[i].closes <= 1
ClosedWhenUnheld == \A i \in 1..Len(inst) : Holders(i) = {} => inst[i].closes = 1
FaithfulRead == last.op = "Get" /\ env[last.args[1]] # Unset => last.val = env[last.args[1]]
ResolvedWhereAsked == \A h \in 1..NH : holder[h].kind = "sym" => Defines(inst[holder[h].inst].lib, holder[h].sym)
FailuresChangeNothing == [][last'.out # "ok" => holder' = holder /\ inst' = inst /\ env' = env]_vars

(* per library: how many loader opens / closes must have happened *)
Opens(lib) == Cardinality({ i \in 1..Len(inst) : inst[i].lib = lib })
Closes(lib) == Cardinality({ i \in 1..Len(inst) : inst[i].lib = lib /\ inst[i].closes = 1 })
Abs == [env |-> env, holder |-> holder, inst |-> inst]
EmitEdge == PrintT("EDGE " \o ToJson([from |-> Abs, act |-> last', to |-> [env |-> env', holder |-> holder', inst |-> inst']]))
View == <<env, holder, inst>>
=============================================================================
