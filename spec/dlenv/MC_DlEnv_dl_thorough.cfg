SPECIFICATION Spec
CONSTANTS
  EnvNames = {}
  EnvVals = {}
  Defaults = {}
  Libs = {"L1", "L2"}
  NH = 4
  MaxInst = 3
INVARIANTS MappedWhileHeld ClosedOnce ClosedWhenUnheld ResolvedWhereAsked
PROPERTY FailuresChangeNothing
ACTION_CONSTRAINT EmitEdge
VIEW View
CHECK_DEADLOCK FALSE
