SPECIFICATION TSpec
CONSTANTS
  EnvNames = {"NV_A", "NV_B", "NV_LONG_XXXXXXXXXXXXXXXXXXXX"}
  EnvVals <- AnyString
  Defaults <- AnyString
  Libs = {"L1", "L2"}
  NH = 4
  MaxInst = 100
INVARIANTS MappedWhileHeld ClosedOnce ClosedWhenUnheld ResolvedWhereAsked FaithfulRead
CONSTRAINT Track
POSTCONDITION Report
CHECK_DEADLOCK FALSE
