------------------------------ MODULE DlEnvTrace ------------------------------
(* code -> spec for C19: one event per call, with the kinds of the holder slots and the loader call    *)
(* counts per library as seen by the wrapped dlopen/dlclose.                                           *)
EXTENDS DlEnv, TraceIO
VARIABLE l
AnyString == STRING
Ev == TraceLog[l]
A(k) == Ev.args[k]
TInit == l = 1 /\ Init
TReset == /\ l <= TraceLen /\ Ev.e = "Reset" /\ l' = l + 1
          /\ env' = [n \in EnvNames |-> Unset] /\ holder' = [h \in 1..NH |-> None] /\ inst' = <<>>
          /\ last' = [op |-> "init", args |-> <<>>, out |-> "ok", val |-> ""]
Dispatch ==
  CASE Ev.e = "SetEnv" -> SetEnv(A(1), A(2))
    [] Ev.e = "UnsetEnv" -> UnsetEnv(A(1))
    [] Ev.e = "Get" -> Get(A(1), A(2))
    [] Ev.e = "GetNoDefault" -> GetNoDefault(A(1))
    [] Ev.e = "Open" -> Open(A(1), A(2))
    [] Ev.e = "Load" -> Load(A(1), A(2), A(3))
    [] Ev.e = "Copy" -> Copy(A(1), A(2))
    [] Ev.e = "AssignCopy" -> AssignCopy(A(1), A(2))
    [] Ev.e = "AssignMove" -> AssignMove(A(1), A(2))
    [] Ev.e = "Call" -> Call(A(1))
    [] Ev.e = "Destroy" -> Destroy(A(1))
    [] OTHER -> FALSE
OpensOf(i, lib) == Cardinality({ k \in 1..Len(i) : i[k].lib = lib })
ClosesOf(i, lib) == Cardinality({ k \in 1..Len(i) : i[k].lib = lib /\ i[k].closes = 1 })
TCall ==
  /\ l <= TraceLen /\ Ev.e # "Reset"
  /\ Dispatch
  /\ last'.out = Ev.out /\ last'.val = Ev.val
  /\ (Ev.out = "dl_exception" => Ev.diag)      \* the loader's diagnostic of *this* failure: non-empty, names what was asked
                                               \* for, and stays what it was whatever the loader is asked afterwards
  /\ \A h \in 1..NH : holder'[h].kind = Ev.kinds[h]
  /\ Ev.l1o = OpensOf(inst', "L1") /\ Ev.l1c = ClosesOf(inst', "L1")
  /\ Ev.l2o = OpensOf(inst', "L2") /\ Ev.l2c = ClosesOf(inst', "L2")
  /\ Ev.stray = 0
  /\ l' = l + 1
TNext == TReset \/ TCall
TSpec == TInit /\ [][TNext]_<<vars, l>>
Track == TrackCursor(l)
Report == ReportMatched
=============================================================================
