SPECIFICATION Spec
CONSTANTS
  EnvNames = {}
  EnvVals = {}
  Defaults = {}
  Libs = {"L1", "L2"}
  NH = 3
  MaxInst = 2
INVARIANTS MappedWhileHeld ClosedOnce ClosedWhenUnheld ResolvedWhereAsked
PROPERTY FailuresChangeNothing
ACTION_CONSTRAINT EmitEdge
VIEW View
CHECK_DEADLOCK FALSE
