----------------------------- MODULE BoundedSeq -----------------------------
(* The meaning of a fixed_vector (C07): an ordinary list bounded by a capacity.  A pool of such     *)
(* lists; one action per *kind of change* a caller can make.  FixedVector.tla refines this module   *)
(* under the mapping "forget the junk slots": TLC checks  FixedVector!Spec => BoundedSeq!Spec.       *)
EXTENDS Naturals, Sequences

CONSTANTS NC, Vals
VARIABLE bs      \* [1..NC -> [st: "absent"|"live"|"dirty", cap, seq]]

C == 1..NC
Gone == [st |-> "absent", cap |-> 0, seq |-> <<>>]
List(cap, s) == [st |-> "live", cap |-> cap, seq |-> s]
IsList(s) == \E n \in Nat : DOMAIN s = 1..n /\ \A i \in 1..n : s[i] \in Vals   \* (only evaluated on concrete values)

Init == bs = [c \in C |-> Gone]

Create(c, cap, s)  == bs[c].st = "absent" /\ Len(s) <= cap /\ bs' = [bs EXCEPT ![c] = List(cap, s)]
Drop(c)            == bs[c].st # "absent" /\ bs' = [bs EXCEPT ![c] = Gone]
AppendOne(c, v)    == bs[c].st = "live" /\ Len(bs[c].seq) < bs[c].cap /\ bs' = [bs EXCEPT ![c].seq = Append(@, v)]
InsertBefore(c, k, v) == /\ bs[c].st = "live" /\ Len(bs[c].seq) < bs[c].cap /\ k \in 1..(Len(bs[c].seq) + 1)
                         /\ bs' = [bs EXCEPT ![c].seq = SubSeq(@, 1, k - 1) \o <<v>> \o SubSeq(@, k, Len(@))]
RemoveAt(c, k)     == /\ bs[c].st = "live" /\ k \in 1..Len(bs[c].seq)
                      /\ bs' = [bs EXCEPT ![c].seq = SubSeq(@, 1, k - 1) \o SubSeq(@, k + 1, Len(@))]
Write(c, k, v)     == bs[c].st = "live" /\ k \in 1..Len(bs[c].seq) /\ bs' = [bs EXCEPT ![c].seq[k] = v]
(* whole-container replacement: the only way the capacity of an existing list changes *)
Replace(c, cap, s) == bs[c].st # "absent" /\ Len(s) <= cap /\ bs' = [bs EXCEPT ![c] = List(cap, s)]
CopyFrom(d, c)     == bs[c].st = "live" /\ d # c /\ bs' = [bs EXCEPT ![d] = List(bs[c].cap, bs[c].seq)]
TransferFrom(d, c) == bs[c].st = "live" /\ d # c
                      /\ bs' = [bs EXCEPT ![d] = List(bs[c].cap, bs[c].seq), ![c] = List(bs[c].cap, <<>>)]
(* range write inside the capacity: overwrite from k, extend at the end *)
WriteRange(c, k, r) == /\ bs[c].st = "live" /\ k \in 1..(Len(bs[c].seq) + 1) /\ k - 1 + Len(r) <= bs[c].cap
                       /\ bs' = [bs EXCEPT ![c].seq = [i \in 1..(IF k - 1 + Len(r) > Len(@) THEN k - 1 + Len(r) ELSE Len(@)) |->
                                                         IF i >= k /\ i < k + Len(r) THEN r[i - k + 1] ELSE @[i]]]
(* a failed range operation leaves unspecified contents, never a larger capacity *)
Spoil(c)           == bs[c].st = "live" /\ bs' = [bs EXCEPT ![c] = [st |-> "dirty", cap |-> bs[c].cap, seq |-> <<>>]]

Next == \E c \in C :
          \/ \E cap \in 0..8, s \in UNION { [1..n -> Vals] : n \in 0..3 } : Create(c, cap, s) \/ Replace(c, cap, s) \/ \E k \in 1..9 : WriteRange(c, k, s)
          \/ Drop(c) \/ Spoil(c)
          \/ \E v \in Vals : AppendOne(c, v) \/ \E k \in 1..9 : InsertBefore(c, k, v) \/ Write(c, k, v)
          \/ \E k \in 1..9 : RemoveAt(c, k)
          \/ \E d \in C : CopyFrom(d, c) \/ TransferFrom(d, c)

Spec == Init /\ [][Next]_bs

BoundedAlways == \A c \in C : Len(bs[c].seq) <= bs[c].cap
=============================================================================
