SPECIFICATION Spec
CONSTANTS
  NC = 2
  Caps = {0,1,2,3}
  Vals = {1,2}
  MaxList = 2
INVARIANTS TypeOK NoJunkVisible JunkBeyondSize
PROPERTIES CapacityFixed FailedSingleOpChangesNothing CopyIndependent
ACTION_CONSTRAINT EmitEdge
VIEW View
CHECK_DEADLOCK FALSE
