-------------------------- MODULE FixedVectorTrace --------------------------
(* code -> spec for fixed_vector: one event per public call, logged at its return with the projected *)
(* state of the whole pool:  {"e": op, "args": [...], "out": "ok"|"raise"|"threw"|[v], "state": [...],   *)
(* "objs": live element objects, "bad": registry violations}.  Every event must be an instance of the    *)
(* action of FixedVector with those arguments, ending in exactly the logged state; an operation in       *)
(* which an element copy/move threw ("threw") may leave the contents of the containers it worked on      *)
(* unspecified, but never the object accounting: objs = sum of capacities, bad = 0, always.              *)
EXTENDS FixedVector, TraceIO

TCaps == 0..400          \* recorded histories also use capacities and lists around 127 / 255 / 300
VARIABLE l

Ev == TraceLog[l]
A(k) == Ev.args[k]

FromLog(sts) == [c \in C |-> IF sts[c].st = "absent" THEN Absent
                             ELSE IF sts[c].st = "dirty" THEN [st |-> "dirty", cap |-> sts[c].cap, size |-> 0, slots |-> [k \in 1..sts[c].cap |-> J], mf |-> FALSE]
                             ELSE Mk(sts[c].cap, sts[c].seq)]

Dispatch ==
  CASE Ev.e = "Construct"      -> Construct(A(1), A(2))
    [] Ev.e = "ConstructFrom"  -> ConstructFrom(A(1), A(2), A(3))
    [] Ev.e = "ConstructList"  -> ConstructList(A(1), A(2))
    [] Ev.e = "CopyConstruct"  -> CopyConstruct(A(1), A(2))
    [] Ev.e = "MoveConstruct"  -> MoveConstruct(A(1), A(2))
    [] Ev.e = "Destroy"        -> Destroy(A(1))
    [] Ev.e = "CopyAssign"     -> CopyAssign(A(1), A(2))
    [] Ev.e = "MoveAssign"     -> MoveAssign(A(1), A(2))
    [] Ev.e = "AssignList"     -> AssignList(A(1), A(2))
    [] Ev.e = "At"             -> At(A(1), A(2))
    [] Ev.e = "SetAt"          -> SetAt(A(1), A(2), A(3))
    [] Ev.e = "EmplaceBack"    -> EmplaceBack(A(1), A(2))
    [] Ev.e = "InsertMove"     -> InsertMove(A(1), A(2))
    [] Ev.e = "InsertCopy"     -> InsertCopy(A(1), A(2))
    [] Ev.e = "PushBack"       -> PushBack(A(1), A(2))
    [] Ev.e = "EmplaceAt"      -> EmplaceAt(A(1), A(2), A(3))
    [] Ev.e = "PopBack"        -> PopBack(A(1))
    [] Ev.e = "Erase"          -> Erase(A(1), A(2))
    [] Ev.e = "RangeInsert"    -> RangeInsert(A(1), A(2), A(3))
    [] Ev.e = "PushBackRange"  -> PushBackRange(A(1), A(2))
    [] OTHER -> FALSE

SameAbs(f, sts) ==
  \A c \in C : /\ (sts[c].st = "absent") = (f[c].st = "absent")
               /\ f[c].st # "absent" => sts[c].cap = f[c].cap
               /\ f[c].st = "live" => sts[c].seq = SubSeq(f[c].slots, 1, f[c].size) /\ sts[c].size = f[c].size
               /\ f[c].st = "dirty" => sts[c].size <= sts[c].cap

TInit == l = 1 /\ Init

TReset ==
  /\ l <= TraceLen /\ Ev.e = "Reset"
  /\ l' = l + 1 /\ fv' = [c \in C |-> Absent] /\ last' = [op |-> "init", args |-> <<>>, out |-> "ok", val |-> <<>>, alt |-> <<>>]

TCall ==
  /\ l <= TraceLen /\ Ev.e # "Reset" /\ Ev.out # "threw"
  /\ Dispatch
  /\ last'.out = Ev.out /\ last'.val = Ev.val
  /\ SameAbs(fv', Ev.state)
  /\ Ev.objs = ObjCount(fv') /\ Ev.bad = 0
  /\ l' = l + 1

(* An element's copy/move threw in the middle of the call.  What the property still demands:                    *)
(*   - a failed *append* (the single-element operations at the end) leaves the container unchanged;              *)
(*   - a failed positional emplace / erase / element write never changes the size (so no unfilled slot becomes   *)
(*     visible), the contents of that container are unspecified afterwards;                                      *)
(*   - range operations and whole-container assignments: may stop half way, size <= capacity, but every visible   *)
(*     element is still one the caller put there; constructors: the object does not come into being;             *)
(*   - always: bystanders untouched, capacity as before (except whole-container assignment), object accounting.  *)
AppendOps == {"EmplaceBack", "InsertMove", "InsertCopy", "PushBack"}
InPlaceOps == {"EmplaceAt", "Erase", "SetAt"}
Involved(c) == \E k \in 1..Len(Ev.who) : Ev.who[k] = c
DirtyOf(cap) == [st |-> "dirty", cap |-> cap, size |-> 0, slots |-> [k \in 1..cap |-> J], mf |-> FALSE]
TThrew ==
  /\ l <= TraceLen /\ Ev.e # "Reset" /\ Ev.out = "threw"
  /\ IF Ev.e \in AppendOps
     THEN /\ fv' = fv /\ SameAbs(fv, Ev.state)
     ELSE /\ fv' = [c \in C |-> IF ~Involved(c) THEN fv[c]
                                ELSE IF Ev.state[c].st = "absent" THEN Absent ELSE DirtyOf(Ev.state[c].cap)]
          /\ \A c \in C : Involved(c) /\ Ev.state[c].st # "absent" => Ev.state[c].size <= Ev.state[c].cap
          /\ (Ev.e \in InPlaceOps) => \A c \in C : Involved(c) /\ fv[c].st = "live" => Ev.state[c].size = fv[c].size
          \* a throwing range operation / assignment may stop half way, but what it leaves visible are still only
          \* elements the caller put there (the size never runs ahead of the slots that were filled)
          /\ (Ev.e \in {"RangeInsert", "PushBackRange", "CopyAssign", "MoveAssign", "AssignList"}) =>
               \A c \in C : Involved(c) /\ Ev.state[c].st # "absent" /\ fv[c].st # "dirty" =>
                 \A k \in 1..Len(Ev.state[c].seq) : Ev.state[c].seq[k] \in Vals
          /\ \A c \in C : ~Involved(c) => (Ev.state[c].st = "absent") = (fv[c].st = "absent")
  /\ \A c \in C : fv[c].st # "absent" /\ fv'[c].st # "absent" /\ Ev.e \notin {"CopyAssign", "MoveAssign", "AssignList"} => fv'[c].cap = fv[c].cap
  /\ Ev.objs = ObjCount(fv') /\ Ev.bad = 0
  /\ last' = [op |-> Ev.e, args |-> Ev.args, out |-> "threw", val |-> <<>>, alt |-> <<>>]
  /\ l' = l + 1

TNext == TReset \/ TCall \/ TThrew
TSpec == TInit /\ [][TNext]_<<vars, l>>
Track == TrackCursor(l)
Report == ReportMatched
=============================================================================
