---------------------------- MODULE FixedVector ----------------------------
(* nitro::lang::fixed_vector<T>  (properties C06, C07) as a pool of containers.                     *)
(*                                                                                                  *)
(* A container is a fixed block of `cap` slots of which the first `size` hold elements the caller   *)
(* put there; the others hold junk (default-constructed or moved-from objects) that no accessor may *)
(* ever show.  One action per public operation, with both outcomes (ok / raise).  The abstract      *)
(* meaning is BoundedSeq.tla; the refinement mapping forgets the junk slots.                        *)
(*                                                                                                  *)
(* Choices the properties leave open are modelled as open, never guessed:                           *)
(*   - assigning an initializer list may keep the capacity (if the list fits) or take the list's    *)
(*     length as the new capacity; if it does not fit the old capacity it may also raise;           *)
(*   - a range insert/append that does not fit raises, and the contents afterwards are unspecified  *)
(*     (the container is then "dirty": only size <= cap is known until it is assigned or destroyed);*)
(*   - range insert at a position overwrites from that position and extends at the end (the code's  *)
(*     meaning; the property does not define a positional range insert).                            *)
EXTENDS Naturals, Sequences, FiniteSets, TLC, Json

CONSTANTS NC,        \* number of containers in the pool
          Caps,      \* capacities used at construction
          Vals,      \* element values (naturals > 0)
          MaxList    \* longest list / range argument

J == 0               \* a junk slot

VARIABLES fv,        \* [1..NC -> [st: "absent"|"live"|"dirty", cap, size, slots]]
          last       \* ghost: the last operation: [op, args, out]  (out: "ok" | "raise" | <<value>>)

vars == <<fv, last>>

C == 1..NC
(* mf: ghost -- the container was the source of a move and has not been assigned since.  Nothing depends on it;
   it is part of the state only so that the transition tour takes every edge also on moved-from containers. *)
Absent == [st |-> "absent", cap |-> 0, size |-> 0, slots |-> <<>>, mf |-> FALSE]
Mk(cap, s) == [st |-> "live", cap |-> cap, size |-> Len(s),
               slots |-> [k \in 1..cap |-> IF k <= Len(s) THEN s[k] ELSE J], mf |-> FALSE]
MovedFrom(cap) == [Mk(cap, <<>>) EXCEPT !.mf = TRUE]
Keep(c, x) == [x EXCEPT !.mf = fv[c].mf]      \* element-level operations do not touch the ghost
SeqOf(c) == SubSeq(fv[c].slots, 1, fv[c].size)
Live(c) == fv[c].st = "live"
Lists == UNION { [1..k -> Vals] : k \in 0..MaxList }
IsList(s) == Len(s) <= MaxList /\ \A i \in 1..Len(s) : s[i] \in Vals      \* membership in Lists without enumerating it

Init == fv = [c \in C |-> Absent] /\ last = [op |-> "init", args |-> <<>>, out |-> "ok", val |-> <<>>, alt |-> <<>>]

Op(o, a, r) == last' = [op |-> o, args |-> a, out |-> r, val |-> <<>>, alt |-> <<>>]
OpVal(o, a, v) == last' = [op |-> o, args |-> a, out |-> "ok", val |-> <<v>>, alt |-> <<>>]
Raise(o, a) == Op(o, a, "raise") /\ UNCHANGED fv

InsertAt(s, k, v) == SubSeq(s, 1, k - 1) \o <<v>> \o SubSeq(s, k, Len(s))      \* before 1-based position k
RemoveAt(s, k) == SubSeq(s, 1, k - 1) \o SubSeq(s, k + 1, Len(s))

(* ---- construction / destruction ---------------------------------------------------------------- *)
Construct(c, cap) ==
  /\ fv[c].st = "absent" /\ cap \in Caps
  /\ fv' = [fv EXCEPT ![c] = Mk(cap, <<>>)] /\ Op("Construct", <<c, cap>>, "ok")

ConstructFrom(c, cap, s) ==        \* fixed_vector(capacity, iterable)
  /\ fv[c].st = "absent" /\ cap \in Caps /\ IsList(s)
  /\ IF Len(s) <= cap THEN fv' = [fv EXCEPT ![c] = Mk(cap, s)] /\ Op("ConstructFrom", <<c, cap, s>>, "ok")
     ELSE Raise("ConstructFrom", <<c, cap, s>>)

ConstructList(c, s) ==             \* fixed_vector{...}: capacity = length
  /\ fv[c].st = "absent" /\ IsList(s)
  /\ fv' = [fv EXCEPT ![c] = Mk(Len(s), s)] /\ Op("ConstructList", <<c, s>>, "ok")

CopyConstruct(d, c) ==
  /\ fv[d].st = "absent" /\ Live(c)
  /\ fv' = [fv EXCEPT ![d] = Mk(fv[c].cap, SeqOf(c))] /\ Op("CopyConstruct", <<d, c>>, "ok")

MoveConstruct(d, c) ==             \* the whole sequence goes to d; c stays usable: empty, same capacity
  /\ fv[d].st = "absent" /\ Live(c)
  /\ fv' = [fv EXCEPT ![d] = Mk(fv[c].cap, SeqOf(c)), ![c] = MovedFrom(fv[c].cap)]
  /\ Op("MoveConstruct", <<d, c>>, "ok")

Destroy(c) ==
  /\ fv[c].st # "absent"
  /\ fv' = [fv EXCEPT ![c] = Absent] /\ Op("Destroy", <<c>>, "ok")

(* ---- whole-container assignment ------------------------------------------------------------------ *)
CopyAssign(d, c) ==                \* also d = c (self assignment): nothing changes
  /\ fv[d].st # "absent" /\ Live(c) /\ (d = c => Live(d))
  /\ fv' = [fv EXCEPT ![d] = Mk(fv[c].cap, SeqOf(c))] /\ Op("CopyAssign", <<d, c>>, "ok")

MoveAssign(d, c) ==
  /\ fv[d].st # "absent" /\ Live(c) /\ d # c
  /\ fv' = [fv EXCEPT ![d] = Mk(fv[c].cap, SeqOf(c)), ![c] = MovedFrom(fv[c].cap)]
  /\ Op("MoveAssign", <<d, c>>, "ok")

AssignList(d, s) ==                \* open: capacity kept (if it fits) or replaced by the length; raise if it does not fit
  /\ fv[d].st # "absent" /\ IsList(s)
  /\ \/ /\ Len(s) <= fv[d].cap
        /\ fv' = [fv EXCEPT ![d] = Mk(fv[d].cap, s)] /\ last' = [op |-> "AssignList", args |-> <<d, s>>, out |-> "ok", val |-> <<>>, alt |-> <<"newcap">>]
     \/ /\ fv' = [fv EXCEPT ![d] = Mk(Len(s), s)] /\ last' = [op |-> "AssignList", args |-> <<d, s>>, out |-> "ok", val |-> <<>>, alt |-> <<"keepcap", "raise">>]
     \/ /\ Len(s) > fv[d].cap /\ Live(d)
        /\ UNCHANGED fv /\ last' = [op |-> "AssignList", args |-> <<d, s>>, out |-> "raise", val |-> <<>>, alt |-> <<"newcap">>]

(* ---- element access ------------------------------------------------------------------------------ *)
At(c, k) ==                        \* 0-based index as in the API; also std::get<k>
  /\ Live(c) /\ k \in Nat
  /\ IF k < fv[c].size THEN OpVal("At", <<c, k>>, fv[c].slots[k + 1]) /\ UNCHANGED fv
     ELSE Raise("At", <<c, k>>)

SetAt(c, k, v) ==                  \* write through at() / operator[] of a live element
  /\ Live(c) /\ k \in Nat /\ k < fv[c].size /\ v \in Vals
  /\ fv' = [fv EXCEPT ![c].slots[k + 1] = v] /\ Op("SetAt", <<c, k, v>>, "ok")

(* ---- single-element modifiers: all-or-nothing ------------------------------------------------------ *)
AppendOp(name, c, v) ==
  /\ Live(c) /\ v \in Vals
  /\ IF fv[c].size < fv[c].cap
     THEN fv' = [fv EXCEPT ![c] = Keep(c, Mk(fv[c].cap, Append(SeqOf(c), v)))] /\ Op(name, <<c, v>>, "ok")
     ELSE Raise(name, <<c, v>>)

EmplaceBack(c, v) == AppendOp("EmplaceBack", c, v)
InsertMove(c, v)  == AppendOp("InsertMove", c, v)      \* insert(T&&)
InsertCopy(c, v)  == AppendOp("InsertCopy", c, v)      \* insert(const T&)
PushBack(c, v)    == AppendOp("PushBack", c, v)

EmplaceAt(c, k, v) ==              \* inserts before position k (0-based), k <= size
  /\ Live(c) /\ v \in Vals /\ k \in 0..fv[c].size
  /\ IF fv[c].size < fv[c].cap
     THEN fv' = [fv EXCEPT ![c] = Keep(c, Mk(fv[c].cap, InsertAt(SeqOf(c), k + 1, v)))] /\ Op("EmplaceAt", <<c, k, v>>, "ok")
     ELSE Raise("EmplaceAt", <<c, k, v>>)

PopBack(c) ==
  /\ Live(c)
  /\ IF fv[c].size > 0
     THEN fv' = [fv EXCEPT ![c] = Keep(c, Mk(fv[c].cap, SubSeq(SeqOf(c), 1, fv[c].size - 1)))] /\ Op("PopBack", <<c>>, "ok")
     ELSE Raise("PopBack", <<c>>)

Erase(c, k) ==
  /\ Live(c) /\ k \in Nat
  /\ IF k < fv[c].size
     THEN fv' = [fv EXCEPT ![c] = Keep(c, Mk(fv[c].cap, RemoveAt(SeqOf(c), k + 1)))] /\ Op("Erase", <<c, k>>, "ok")
     ELSE Raise("Erase", <<c, k>>)

(* ---- ranges ---------------------------------------------------------------------------------------- *)
Overwrite(s, k, r) ==              \* r written over s from 1-based position k, extending at the end
  [ i \in 1..(IF k - 1 + Len(r) > Len(s) THEN k - 1 + Len(r) ELSE Len(s)) |->
      IF i >= k /\ i < k + Len(r) THEN r[i - k + 1] ELSE s[i] ]

RangeInsert(c, k, r) ==            \* insert(pos, first, last), pos = begin()+k
  /\ Live(c) /\ IsList(r) /\ k \in Nat /\ k <= fv[c].cap
  /\ IF k > fv[c].size THEN Raise("RangeInsert", <<c, k, r>>)
     ELSE IF k + Len(r) <= fv[c].cap
          THEN fv' = [fv EXCEPT ![c] = Keep(c, Mk(fv[c].cap, Overwrite(SeqOf(c), k + 1, r)))] /\ Op("RangeInsert", <<c, k, r>>, "ok")
          ELSE /\ fv' = [fv EXCEPT ![c].st = "dirty"]      \* does not fit: raises, contents unspecified
               /\ Op("RangeInsert", <<c, k, r>>, "raise")

PushBackRange(c, r) ==             \* push_back(first, last): the range form of append
  /\ Live(c) /\ IsList(r)
  /\ IF fv[c].size + Len(r) <= fv[c].cap
     THEN fv' = [fv EXCEPT ![c] = Keep(c, Mk(fv[c].cap, SeqOf(c) \o r))] /\ Op("PushBackRange", <<c, r>>, "ok")
     ELSE /\ fv' = [fv EXCEPT ![c].st = "dirty"] /\ Op("PushBackRange", <<c, r>>, "raise")

Next ==
  \E c \in C :
    \/ \E cap \in Caps : Construct(c, cap)
    \/ \E cap \in Caps, s \in Lists : ConstructFrom(c, cap, s)
    \/ \E s \in Lists : ConstructList(c, s)
    \/ \E d \in C : CopyConstruct(d, c) \/ MoveConstruct(d, c) \/ CopyAssign(d, c) \/ MoveAssign(d, c)
    \/ Destroy(c)
    \/ \E s \in Lists : AssignList(c, s)
    \/ \E k \in 0..4 : At(c, k) \/ Erase(c, k)
    \/ \E k \in 0..3, v \in Vals : SetAt(c, k, v) \/ EmplaceAt(c, k, v)
    \/ \E v \in Vals : EmplaceBack(c, v) \/ InsertMove(c, v) \/ InsertCopy(c, v) \/ PushBack(c, v)
    \/ PopBack(c)
    \/ \E k \in 0..4, r \in Lists : RangeInsert(c, k, r)
    \/ \E r \in Lists : PushBackRange(c, r)

Spec == Init /\ [][Next]_vars

------------------------------------------------------------------------------------------------------
(* C06 *)
MaxCap == LET S == Caps \cup {MaxList} IN CHOOSE m \in S : \A x \in S : x <= m

TypeOK ==
  \A c \in C : /\ fv[c].st \in {"absent", "live", "dirty"}
               /\ fv[c].size <= fv[c].cap                       \* size never exceeds capacity
               /\ fv[c].cap <= MaxCap
               /\ DOMAIN fv[c].slots = 1..fv[c].cap             \* exactly `cap` slots exist: nothing outside is touched

NoJunkVisible ==                                                 \* only what the caller put there
  \A c \in C : Live(c) => \A k \in 1..fv[c].size : fv[c].slots[k] \in Vals

JunkBeyondSize ==
  \A c \in C : Live(c) => \A k \in (fv[c].size + 1)..fv[c].cap : fv[c].slots[k] = J

(* one element object per slot of every existing container, whatever happened (leak / double destroy accounting) *)
ObjCount(f) == LET RECURSIVE Sum(_)
                   Sum(S) == IF S = {} THEN 0 ELSE LET c == CHOOSE c \in S : TRUE IN f[c].cap + Sum(S \ {c})
               IN Sum({ c \in C : f[c].st # "absent" })
ObjectCount == ObjCount(fv)

(* capacity changes only by whole-container assignment; failed single-element operations change nothing *)
CapacityFixed ==
  [][\A c \in C : fv[c].st # "absent" /\ fv'[c].st # "absent" /\ fv'[c].cap # fv[c].cap
        => last'.op \in {"CopyAssign", "MoveAssign", "AssignList"}]_vars

FailedSingleOpChangesNothing ==
  [][last'.out = "raise" /\ last'.op \notin {"RangeInsert", "PushBackRange"} => fv' = fv]_vars

(* C07: observed through size / index / iteration the container is its sequence; copies are independent *)
CopyIndependent ==
  [][\A c, d \in C : last'.op \in {"SetAt", "EmplaceBack", "InsertMove", "InsertCopy", "PushBack", "EmplaceAt", "PopBack", "Erase"}
        /\ last'.args[1] = c /\ d # c => fv'[d] = fv[d]]_vars

(* export of the transition graph: every edge once (tour construction and replay happen outside TLC) *)
AbsOf(f) == [c \in C |-> IF f[c].st = "absent" THEN [st |-> "absent", cap |-> 0, seq |-> <<>>]
                        ELSE IF f[c].st = "dirty" THEN [st |-> "dirty", cap |-> f[c].cap, seq |-> <<>>]
                        ELSE [st |-> "live", cap |-> f[c].cap, seq |-> SubSeq(f[c].slots, 1, f[c].size)]]
Abs == AbsOf(fv)
WithGhost(f) == [c \in C |-> [st |-> AbsOf(f)[c].st, cap |-> AbsOf(f)[c].cap, seq |-> AbsOf(f)[c].seq, mf |-> f[c].mf]]
(* C07: refinement -- every step of the slot-level machine is a step (or a stutter) of the bounded list *)
BS == INSTANCE BoundedSeq WITH bs <- Abs
Refines == BS!Spec

EmitEdge == PrintT("EDGE " \o ToJson([from |-> WithGhost(fv), act |-> last', to |-> WithGhost(fv')]))
View == fv
=============================================================================
