SPECIFICATION TSpec
CONSTANTS
  NC = 3
  Caps <- TCaps
  Vals = {1,2,3,4,5,6,7,8,9}
  MaxList = 400
INVARIANTS TypeOK NoJunkVisible JunkBeyondSize
CONSTRAINT Track
POSTCONDITION Report
CHECK_DEADLOCK FALSE
