----------------------------- MODULE OwningTrace -----------------------------
(* code -> spec for C18: one event per call with the projected pools and the destructor log. *)
EXTENDS Owning, TraceIO
VARIABLE l
Ev == TraceLog[l]
TInit == l = 1 /\ Init
TReset == /\ l <= TraceLen /\ Ev.e = "Reset" /\ l' = l + 1
          /\ ptr' = [p \in 1..NP |-> 0] /\ vec' = <<>> /\ obj' = <<>> /\ opt' = [o \in 1..NO |-> <<>>]
          /\ last' = [op |-> "init", args |-> <<>>, out |-> "ok", val |-> <<>>]
A(k) == Ev.args[k]
Dispatch ==
  CASE Ev.e = "Make" -> Make(A(1), A(2))
    [] Ev.e = "MoveAssign" -> MoveAssign(A(1), A(2))
    [] Ev.e = "MoveConstruct" -> MoveConstructSwap(A(1), A(2))
    [] Ev.e = "Reset" -> FALSE
    [] Ev.e = "ResetPtr" -> Reset(A(1))
    [] Ev.e = "Push" -> Push(A(1))
    [] Ev.e = "Reallocate" -> Reallocate
    [] Ev.e = "TakeBack" -> TakeBack(A(1))
    [] Ev.e = "ClearVector" -> ClearVector
    [] Ev.e = "OptSetValue" -> OptSetValue(A(1), A(2))
    [] Ev.e = "OptAssign" -> OptAssign(A(1), A(2))
    [] Ev.e = "OptCopyConstruct" -> OptCopyConstruct(A(1), A(2))
    [] Ev.e = "OptAssignEmpty" -> OptAssignEmpty(A(1))
    [] Ev.e = "OptRead" -> OptRead(A(1))
    [] OTHER -> FALSE
TCall ==
  /\ l <= TraceLen /\ Ev.e # "Reset"
  /\ Dispatch
  /\ last'.out = Ev.out /\ last'.val = Ev.val
  /\ ptr' = Ev.ptr /\ vec' = Ev.vec /\ opt' = Ev.opt
  /\ Len(obj') = Len(Ev.obj)
  /\ \A i \in 1..Len(obj') : obj'[i].destroyed = Ev.obj[i].destroyed /\ obj'[i].as = Ev.obj[i].as
  /\ Ev.bad = 0 /\ Ev.v_live = Ev.v_holding           \* one value object per non-empty optional: no sharing, no leak
  /\ l' = l + 1
TNext == TReset \/ TCall
TSpec == TInit /\ [][TNext]_<<vars, l>>
Track == TrackCursor(l)
Report == ReportMatched
=============================================================================
