SPECIFICATION Spec
CONSTANTS
  NP = 1
  Types = {}
  MaxObjs = 0
  MaxVec = 0
  NO = 3
  Vals = {1, 2}
INVARIANTS NeverTwice
ACTION_CONSTRAINT EmitEdge
VIEW View
CHECK_DEADLOCK FALSE
