SPECIFICATION Spec
CONSTANTS
  NP = 3
  Types = {"A", "B", "C"}
  MaxObjs = 4
  MaxVec = 2
  NO = 1
  Vals = {}
INVARIANTS NeverTwice ByOwnType ExactlyWhenUnowned SingleOwner
ACTION_CONSTRAINT EmitEdge
VIEW View
CHECK_DEADLOCK FALSE
