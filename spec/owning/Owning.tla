------------------------------- MODULE Owning -------------------------------
(* Owning wrappers (property C18).                                                                    *)
(* Part 1: nitro::lang::quaint_ptr -- a pool of type-erased owning pointers and a vector of them.      *)
(*   Every object created through make_quaint<T> is destroyed exactly once, as a T, exactly when its   *)
(*   last (only) owner lets go: reset, being overwritten by move assignment, destruction of the owner. *)
(* Part 2: nitro::lang::optional<T> -- a pool of optionals holding independent copies.                 *)
EXTENDS Naturals, Sequences, FiniteSets, TLC, Json

CONSTANTS NP,          \* pointer slots
          Types,       \* dynamic types of payloads, e.g. {"A", "B", "C"}
          MaxObjs,     \* objects ever created
          MaxVec,      \* length of the vector of pointers
          NO,          \* optional slots
          Vals         \* values held by optionals

VARIABLES ptr,         \* [1..NP -> 0 | object id]      0 = empty
          vec,         \* sequence of (0 | object id): the std::vector<quaint_ptr>
          obj,         \* sequence of [type, destroyed (count), as (sequence of types whose destructor ran)]
          opt,         \* [1..NO -> <<>> | <<v>>]
          last         \* ghost [op, args, out]

vars == <<ptr, vec, obj, opt, last>>

Init ==
  /\ ptr = [p \in 1..NP |-> 0] /\ vec = <<>> /\ obj = <<>> /\ opt = [o \in 1..NO |-> <<>>]
  /\ last = [op |-> "init", args |-> <<>>, out |-> "ok", val |-> <<>>]

Did(o, a) == last' = [op |-> o, args |-> a, out |-> "ok", val |-> <<>>]
Kill(os, i) == IF i = 0 THEN os ELSE [os EXCEPT ![i].destroyed = @ + 1, ![i].as = Append(@, os[i].type)]
RECURSIVE KillAll(_, _)
KillAll(os, ids) == IF ids = <<>> THEN os ELSE KillAll(Kill(os, Head(ids)), Tail(ids))

Make(p, t) ==        \* ptr[p] = make_quaint<t>(): whatever p owned before is destroyed
  /\ p \in 1..NP /\ t \in Types /\ Len(obj) < MaxObjs
  /\ obj' = Append(Kill(obj, ptr[p]), [type |-> t, destroyed |-> 0, as |-> <<>>])
  /\ ptr' = [ptr EXCEPT ![p] = Len(obj) + 1]
  /\ Did("Make", <<p, t>>) /\ UNCHANGED <<vec, opt>>

MoveAssign(q, p) ==  \* ptr[q] = std::move(ptr[p]);  q = p: self move, nothing happens
  /\ p \in 1..NP /\ q \in 1..NP
  /\ IF p = q THEN UNCHANGED <<ptr, obj>>
     ELSE /\ obj' = Kill(obj, ptr[q])
          /\ ptr' = [ptr EXCEPT ![q] = ptr[p], ![p] = 0]
  /\ Did("MoveAssign", <<q, p>>) /\ UNCHANGED <<vec, opt>>

MoveConstructSwap(q, p) ==   \* quaint_ptr tmp(std::move(ptr[p])); ptr[p] stays empty; then ptr[q] = std::move(tmp)
  /\ p \in 1..NP /\ q \in 1..NP /\ p # q
  /\ obj' = Kill(obj, ptr[q])
  /\ ptr' = [ptr EXCEPT ![q] = ptr[p], ![p] = 0]
  /\ Did("MoveConstruct", <<q, p>>) /\ UNCHANGED <<vec, opt>>

Reset(p) ==
  /\ p \in 1..NP
  /\ obj' = Kill(obj, ptr[p]) /\ ptr' = [ptr EXCEPT ![p] = 0]
  /\ Did("Reset", <<p>>) /\ UNCHANGED <<vec, opt>>

Push(p) ==           \* vec.push_back(std::move(ptr[p])) -- may reallocate and move all elements
  /\ p \in 1..NP /\ Len(vec) < MaxVec
  /\ vec' = Append(vec, ptr[p]) /\ ptr' = [ptr EXCEPT ![p] = 0]
  /\ Did("Push", <<p>>) /\ UNCHANGED <<obj, opt>>

Reallocate ==        \* vec.reserve(more): every element is moved to new storage, nothing is destroyed
  /\ vec # <<>>
  /\ Did("Reallocate", <<>>) /\ UNCHANGED <<ptr, vec, obj, opt>>

TakeBack(p) ==       \* ptr[p] = std::move(vec.back()); vec.pop_back()
  /\ p \in 1..NP /\ vec # <<>>
  /\ obj' = Kill(obj, ptr[p])
  /\ ptr' = [ptr EXCEPT ![p] = vec[Len(vec)]] /\ vec' = SubSeq(vec, 1, Len(vec) - 1)
  /\ Did("TakeBack", <<p>>) /\ UNCHANGED opt

ClearVector ==
  /\ vec # <<>>
  /\ obj' = KillAll(obj, vec) /\ vec' = <<>>
  /\ Did("ClearVector", <<>>) /\ UNCHANGED <<ptr, opt>>

(* ---- optional ---------------------------------------------------------------------------------------- *)
OptSetValue(o, v) == /\ o \in 1..NO /\ v \in Vals /\ opt' = [opt EXCEPT ![o] = <<v>>]
                     /\ Did("OptSetValue", <<o, v>>) /\ UNCHANGED <<ptr, vec, obj>>
OptAssign(o, q) ==   \* opt[o] = opt[q]: an empty source empties the target; o = q allowed
  /\ o \in 1..NO /\ q \in 1..NO /\ opt' = [opt EXCEPT ![o] = opt[q]]
  /\ Did("OptAssign", <<o, q>>) /\ UNCHANGED <<ptr, vec, obj>>
OptCopyConstruct(o, q) ==   \* opt[o] is rebuilt as a copy-constructed optional of opt[q]
  /\ o \in 1..NO /\ q \in 1..NO /\ o # q /\ opt' = [opt EXCEPT ![o] = opt[q]]
  /\ Did("OptCopyConstruct", <<o, q>>) /\ UNCHANGED <<ptr, vec, obj>>
OptAssignEmpty(o) == /\ o \in 1..NO /\ opt' = [opt EXCEPT ![o] = <<>>]
                     /\ Did("OptAssignEmpty", <<o>>) /\ UNCHANGED <<ptr, vec, obj>>
OptRead(o) ==        \* *opt[o]: the value, or an exception when empty
  /\ o \in 1..NO
  /\ last' = [op |-> "OptRead", args |-> <<o>>, out |-> (IF opt[o] = <<>> THEN "raise" ELSE "ok"), val |-> opt[o]]
  /\ UNCHANGED <<ptr, vec, obj, opt>>

Next ==
  \/ \E p \in 1..NP : (\E t \in Types : Make(p, t)) \/ Reset(p) \/ Push(p) \/ TakeBack(p)
                      \/ \E q \in 1..NP : MoveAssign(q, p) \/ MoveConstructSwap(q, p)
  \/ Reallocate \/ ClearVector
  \/ \E o \in 1..NO : (\E v \in Vals : OptSetValue(o, v)) \/ OptAssignEmpty(o) \/ OptRead(o)
                      \/ \E q \in 1..NO : OptAssign(o, q) \/ OptCopyConstruct(o, q)
Spec == Init /\ [][Next]_vars

------------------------------------------------------------------------------------------------------
Owned == { ptr[p] : p \in 1..NP } \cup { vec[k] : k \in 1..Len(vec) }
NeverTwice == \A i \in 1..Len(obj) : obj[i].destroyed <= 1
ByOwnType == \A i \in 1..Len(obj) : \A k \in 1..Len(obj[i].as) : obj[i].as[k] = obj[i].type
ExactlyWhenUnowned == \A i \in 1..Len(obj) : (obj[i].destroyed = 1) <=> (i \notin Owned)
SingleOwner ==
  /\ \A p, q \in 1..NP : p # q /\ ptr[p] # 0 => ptr[p] # ptr[q]
  /\ \A p \in 1..NP, k \in 1..Len(vec) : ptr[p] # 0 => ptr[p] # vec[k]
  /\ \A j, k \in 1..Len(vec) : j # k /\ vec[j] # 0 => vec[j] # vec[k]

Abs == [ptr |-> ptr, vec |-> vec, obj |-> obj, opt |-> opt]
EmitEdge == PrintT("EDGE " \o ToJson([from |-> Abs, act |-> last', to |-> [ptr |-> ptr', vec |-> vec', obj |-> obj', opt |-> opt']]))
View == <<ptr, vec, obj, opt>>
=============================================================================
