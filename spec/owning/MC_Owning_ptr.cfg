SPECIFICATION Spec
CONSTANTS
  NP = 2
  Types = {"A", "B"}
  MaxObjs = 3
  MaxVec = 2
  NO = 1
  Vals = {}
INVARIANTS NeverTwice ByOwnType ExactlyWhenUnowned SingleOwner
ACTION_CONSTRAINT EmitEdge
VIEW View
CHECK_DEADLOCK FALSE
