SPECIFICATION TSpec
CONSTANTS
  NP = 4
  Types = {"A", "B", "C"}
  MaxObjs = 40
  MaxVec = 40
  NO = 4
  Vals = {1,2,3,4,5,6,7,8,9}
INVARIANTS NeverTwice ByOwnType ExactlyWhenUnowned SingleOwner
CONSTRAINT Track
POSTCONDITION Report
CHECK_DEADLOCK FALSE
