---------------------------- MODULE OptUsageTrace ----------------------------
(* code -> spec for C15: one event per declaration rendered: the declaration and the text written to    *)
(* (1) a fresh string stream, (2) a string stream that already held content, (3) std::cout (not         *)
(* seekable).  The three texts must be identical and satisfy OptUsage!UsageOK.                          *)
EXTENDS OptUsage, TraceIO

VARIABLES l, verdict
Ev == TraceLog[l]

TInit == l = 1 /\ verdict = "none"
Which(d, lines) ==
  IF ~SynopsisComplete(d, lines) THEN "SynopsisComplete"
  ELSE IF ~ListedOnceInOrder(d, lines) THEN "ListedOnceInOrder"
  ELSE IF ~GroupHeaders(d, lines) THEN "GroupHeaders"
  ELSE IF ~EntriesOK(d, lines) THEN "EntriesOK"
  ELSE IF ~WidthOK(d, lines) THEN "WidthOK" ELSE "ok"
TStep ==
  /\ l <= TraceLen
  /\ IF Ev.e = "Reset" THEN verdict' = "none"
     ELSE verdict' = (IF Ev.fresh # Ev.prior THEN "SameOnPriorContent"
                      ELSE IF Ev.fresh # Ev.cout THEN "SameOnCout"
                      ELSE IF Ev.fresh # Ev.movedc THEN "SameAfterMoveConstruction"
                      ELSE IF Ev.fresh # Ev.moveda THEN "SameAfterMoveAssignment"
                      ELSE Which(Ev.decl, Ev.fresh))
  /\ l' = (IF verdict' \in {"none", "ok"} THEN l + 1 ELSE l)     \* a rejected event is not consumed
TSpec == TInit /\ [][TStep]_<<l, verdict>>
Good == verdict \in {"none", "ok"}
Track == TrackCursor(l)
Report == ReportMatched
=============================================================================
