----------------------------- MODULE OptMeaning -----------------------------
(* Denotational meaning of one parse call: a function of (declaration, positional limit, greedy,    *)
(* environment, argument vector), written from the property statements C01-C04, C11, C12 -- not      *)
(* from the parser loop.  Every token of the vector is assigned a *role* by local rules; the errors *)
(* and the result are read off the roles.  OptParse.tla is the loop-shaped machine; TLC checks that *)
(* both agree on every bounded input, which is what makes the model an oracle, not a transcription. *)
(*                                                                                                  *)
(* Declaration = sequence of records                                                                *)
(*   [kind \in {"opt","multi","toggle"}, name (bytes), letter (byte, 0 = none), rev (BOOLEAN),      *)
(*    dflt (<<>> = none | <<default>>; toggles: <<n>>), env (0 = unbound | index into the           *)
(*    environment), optional (BOOLEAN)]                                                             *)
(* Environment = sequence of byte strings, <<>> meaning unset or set to the empty string (the       *)
(* property treats both alike: a source is available only when set to a non-empty string).          *)
(* allowed = number of accepted positionals, -1 = unlimited.                                        *)
EXTENDS OptLex, OptWords, Integers

Unlimited == -1
SEMI == 59

Idx(decl) == 1..Len(decl)
ByName(decl, n)   == { i \in Idx(decl) : decl[i].name = n }
ByLetter(decl, c) == { i \in Idx(decl) : decl[i].letter = c }
TakesValue(decl, i) == decl[i].kind \in {"opt", "multi"}
Pick(S) == CHOOSE x \in S : TRUE

Bad(why) == [k |-> "bad", i |-> 0, why |-> why]
Hit(k, i) == [k |-> k, i |-> i, why |-> ""]

(* What a non-value, non-separator token denotes under a declaration (names and letters are         *)
(* unambiguous in a consistent declaration, so Pick is a function):                                  *)
(*   "opt"    value-taking option i (long name or its single letter)                                 *)
(*   "toggle" one occurrence of toggle i        "neg"  --no-<name> of reversible toggle i            *)
(*   "bundle" two or more letters, each a declared toggle letter, no '='                             *)
(*   "bad"    anything else, with the documented reason                                              *)
TargetOf(decl, t) ==
  IF IsMalformed(t) THEN Bad("Malformed")
  ELSE IF IsLongTok(t) THEN
    LET n == LongName(t)
        m == ByName(decl, n)
    IN IF m # {} THEN
         LET i == Pick(m) IN
           IF TakesValue(decl, i) THEN Hit("opt", i)
           ELSE IF HasEq(t) THEN Bad("ToggleValue") ELSE Hit("toggle", i)
       ELSE IF StartsWith(n, NOPFX) THEN
         LET mm == { i \in ByName(decl, Tail0(n, 4)) : decl[i].kind = "toggle" } IN
           IF mm = {} THEN Bad("Unknown")
           ELSE LET i == Pick(mm) IN
                  IF HasEq(t) THEN Bad("ToggleValue")
                  ELSE IF ~decl[i].rev THEN Bad("NotReversible") ELSE Hit("neg", i)
       ELSE Bad("Unknown")
  ELSE  \* short token
    LET ls == Letters(t) IN
      IF Len(ls) = 1 THEN
        LET m == ByLetter(decl, ls[1]) IN
          IF m = {} THEN Bad("Unknown")
          ELSE LET i == Pick(m) IN
                 IF TakesValue(decl, i) THEN Hit("opt", i)
                 ELSE IF HasEq(t) THEN Bad("ToggleValue") ELSE Hit("toggle", i)
      ELSE
        IF HasEq(t) THEN Bad("ToggleValue")       \* "=value" on a bundle of toggles
        ELSE IF \A k \in 1..Len(ls) : \E i \in ByLetter(decl, ls[k]) : decl[i].kind = "toggle"
             THEN Hit("bundle", 0)
             ELSE Bad("Unknown")                   \* undeclared letter, or an option's letter hidden in a bundle

(* how often toggle i is switched on by token t *)
Multiplicity(decl, t, i) ==
  LET tg == TargetOf(decl, t) IN
    IF tg.k = "toggle" /\ tg.i = i THEN 1
    ELSE IF tg.k = "bundle" /\ decl[i].letter # 0 THEN CountByte(Letters(t), decl[i].letter)
    ELSE 0

(* environment text of a multi-option split at ';' -- one trailing empty piece is dropped (the      *)
(* property only says "split at ';'"; this follows the code and is named as a choice)               *)
SplitSemi(v) ==
  LET ps == SplitOn(v, <<SEMI>>) IN
    IF ps[Len(ps)] = <<>> THEN SubSeq(ps, 1, Len(ps) - 1) ELSE ps

EnvOf(decl, env, i) == IF decl[i].env = 0 THEN <<>> ELSE env[decl[i].env]

NoVal == [val |-> <<>>, list |-> <<>>, count |-> 0, prov |-> FALSE]

(* value of option i when the command line does not give it: environment, default, absent           *)
(* returns [ok, st] ; ok = FALSE means MissingRequired / BadEnvWord                                  *)
FromOtherSources(decl, env, i) ==
  LET e == EnvOf(decl, env, i)
      d == decl[i]
  IN CASE d.kind = "opt" ->
            IF e # <<>> THEN [ok |-> TRUE, why |-> "", st |-> [NoVal EXCEPT !.val = <<e>>, !.prov = TRUE]]
            ELSE IF d.dflt # <<>> THEN [ok |-> TRUE, why |-> "", st |-> [NoVal EXCEPT !.val = <<d.dflt[1]>>]]
            ELSE IF d.optional THEN [ok |-> TRUE, why |-> "", st |-> NoVal]
            ELSE [ok |-> FALSE, why |-> "MissingRequired", st |-> NoVal]
       [] d.kind = "multi" ->
            IF e # <<>> THEN [ok |-> TRUE, why |-> "", st |-> [NoVal EXCEPT !.list = SplitSemi(e), !.prov = TRUE]]
            ELSE IF d.dflt # <<>> THEN [ok |-> TRUE, why |-> "", st |-> [NoVal EXCEPT !.list = d.dflt[1]]]
            ELSE IF d.optional THEN [ok |-> TRUE, why |-> "", st |-> NoVal]
            ELSE [ok |-> FALSE, why |-> "MissingRequired", st |-> NoVal]
       [] d.kind = "toggle" ->
            IF e # <<>> THEN
              IF e \in Truthy THEN [ok |-> TRUE, why |-> "", st |-> [NoVal EXCEPT !.count = 1, !.prov = TRUE]]
              ELSE IF e \in Falsy THEN [ok |-> TRUE, why |-> "", st |-> [NoVal EXCEPT !.count = 0, !.prov = TRUE]]
              ELSE [ok |-> FALSE, why |-> "BadEnvWord", st |-> NoVal]
            ELSE [ok |-> TRUE, why |-> "", st |-> [NoVal EXCEPT !.count = d.dflt[1]]]

ErrorOutcome == [oc |-> "error", st |-> <<>>, pos |-> <<>>]

Meaning(decl, allowed, greedy, env, argv) ==
  LET n == Len(argv)
      (* token j asks for its value in the next token *)
      NeedsNext(j) ==
        LET t == argv[j] IN
          ~IsValueTok(t) /\ ~IsDD(t) /\ ~HasEq(t) /\ TargetOf(decl, t).k = "opt"
      Consumed(j) == j > 1 /\ IsValueTok(argv[j]) /\ NeedsNext(j - 1)
      DDs      == { j \in 1..n : IsDD(argv[j]) }
      firstDD  == IF DDs = {} THEN n + 1 ELSE MinOf(DDs)
      FreeBefore == { j \in 1..(firstDD - 1) : IsValueTok(argv[j]) /\ ~Consumed(j) }
      firstPos == IF FreeBefore = {} THEN n + 1 ELSE MinOf(FreeBefore)
      byGreedy == greedy /\ firstPos < firstDD
      (* tokens 1..optEnd are read in option mode; everything after the switch token is positional *)
      optEnd   == IF byGreedy THEN firstPos - 1 ELSE firstDD - 1
      restFrom == IF byGreedy THEN firstPos ELSE firstDD + 1
      OptIdx   == { j \in 1..optEnd : ~IsValueTok(argv[j]) }
      PosIdx   == { j \in 1..optEnd : IsValueTok(argv[j]) /\ ~Consumed(j) } \cup restFrom..n
      RECURSIVE PosSeq(_)
      PosSeq(j) == IF j > n THEN <<>> ELSE (IF j \in PosIdx THEN <<argv[j]>> ELSE <<>>) \o PosSeq(j + 1)
      Tgt(j)   == TargetOf(decl, argv[j])
      anyBad   == \E j \in OptIdx : Tgt(j).k = "bad"
      missing  == \E j \in OptIdx : NeedsNext(j) /\ (j + 1 > n \/ ~IsValueTok(argv[j + 1]))
      Occ(i)   == { j \in OptIdx : Tgt(j).k = "opt" /\ Tgt(j).i = i }
      ValueAt(j) == IF HasEq(argv[j]) THEN ValPart(argv[j]) ELSE argv[j + 1]
      dup      == \E i \in Idx(decl) : decl[i].kind = "opt" /\ Cardinality(Occ(i)) > 1
      RECURSIVE PosCount(_, _)
      PosCount(i, j) == IF j > optEnd THEN 0
                        ELSE (IF j \in OptIdx THEN Multiplicity(decl, argv[j], i) ELSE 0) + PosCount(i, j + 1)
      NegOcc(i) == { j \in OptIdx : Tgt(j).k = "neg" /\ Tgt(j).i = i }
      conflict == \E i \in Idx(decl) : decl[i].kind = "toggle" /\ PosCount(i, 1) > 0 /\ NegOcc(i) # {}
      tooMany  == allowed # Unlimited /\ Cardinality(PosIdx) > allowed
      RECURSIVE ListOf(_, _)
      ListOf(i, j) == IF j > optEnd THEN <<>>
                      ELSE (IF j \in Occ(i) THEN <<ValueAt(j)>> ELSE <<>>) \o ListOf(i, j + 1)
      OnCli(i) == IF decl[i].kind = "toggle" THEN PosCount(i, 1) > 0 \/ NegOcc(i) # {} ELSE Occ(i) # {}
      Other(i) == FromOtherSources(decl, env, i)
      checkBad == \E i \in Idx(decl) : ~OnCli(i) /\ ~Other(i).ok
      St(i) ==
        IF ~OnCli(i) THEN Other(i).st
        ELSE CASE decl[i].kind = "opt"    -> [NoVal EXCEPT !.val = <<ValueAt(Pick(Occ(i)))>>, !.prov = TRUE]
               [] decl[i].kind = "multi"  -> [NoVal EXCEPT !.list = ListOf(i, 1), !.prov = TRUE]
               [] decl[i].kind = "toggle" -> [NoVal EXCEPT !.count = PosCount(i, 1), !.prov = TRUE]
  IN IF anyBad \/ missing \/ dup \/ conflict \/ tooMany \/ checkBad THEN ErrorOutcome
     ELSE [oc |-> "ok", st |-> [i \in Idx(decl) |-> St(i)], pos |-> PosSeq(1)]

(* The one place the property statements leave open: in greedy mode, a *malformed* token after the  *)
(* first positional (C12 says it is a positional, C04 lists malformed dash tokens as an error        *)
(* condition "ahead of --").  Both outcomes are accepted for such vectors.                           *)
GreedyOpen(decl, greedy, argv) ==
  LET n == Len(argv)
      NeedsNext(j) == LET t == argv[j] IN ~IsValueTok(t) /\ ~IsDD(t) /\ ~HasEq(t) /\ TargetOf(decl, t).k = "opt"
      Consumed(j) == j > 1 /\ IsValueTok(argv[j]) /\ NeedsNext(j - 1)
      DDs      == { j \in 1..n : IsDD(argv[j]) }
      firstDD  == IF DDs = {} THEN n + 1 ELSE MinOf(DDs)
      FreeBefore == { j \in 1..(firstDD - 1) : IsValueTok(argv[j]) /\ ~Consumed(j) }
      firstPos == IF FreeBefore = {} THEN n + 1 ELSE MinOf(FreeBefore)
  IN greedy /\ firstPos < firstDD /\ \E j \in (firstPos + 1)..n : IsMalformed(argv[j])

(* The second public entry point, parse(const std::vector<user_input>&): the caller builds the user_input   *)
(* objects, and building one from a malformed token already raises the user-input error -- wherever the    *)
(* token stands, also after "--".  Otherwise the meaning is the same.                                       *)
MeaningViaInputs(decl, allowed, greedy, env, argv) ==
  IF \E j \in 1..Len(argv) : IsMalformed(argv[j]) THEN ErrorOutcome ELSE Meaning(decl, allowed, greedy, env, argv)

(* The documented rejection conditions, as a predicate of the input alone (C04) *)
Rejects(decl, allowed, greedy, env, argv) == Meaning(decl, allowed, greedy, env, argv).oc = "error"
=============================================================================
