SPECIFICATION TSpec
CONSTANTS
  DeclSet = {}
  EnvSet <- NoSet
  ArgvSet <- NoSet
  MaxParses = 0
  EnvChanges = FALSE
  LetterAdds <- NoSet
INVARIANTS TRepeatable TLimit
CONSTRAINT Track
POSTCONDITION Report
CHECK_DEADLOCK FALSE
