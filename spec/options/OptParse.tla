------------------------------ MODULE OptParse ------------------------------
(* The option parser as a state machine shaped like the implementation (parser::parse):             *)
(*   BeginParse  -> one Scan* step per command-line token (two tokens for "--opt value")            *)
(*               -> one Check* step per declared option (environment, default, required)            *)
(*               -> Finish                                                                          *)
(* Properties C01 (accounting), C03 (source ranking), C04 (exact error conditions, termination),    *)
(* C11 (toggles), C12 (positionals) and C14 (repeatability) are invariants / temporal formulas of   *)
(* this machine; OptMeaning.Meaning is the independent statement of what a parse call means.        *)
(*                                                                                                  *)
(* The machine is *normative*: it does what the properties state, e.g. a bundle is accepted only if *)
(* every letter is a declared toggle letter, tokens after "--" are never inspected, environment     *)
(* text is taken verbatim, BeginParse forgets everything an earlier parse left behind.              *)
EXTENDS OptMeaning, TLC, Json

CONSTANTS DeclSet,     \* set of [decl, allowed, greedy] configurations
          EnvSet(_),   \* configuration -> set of environments (sequences of byte strings)
          ArgvSet(_),  \* configuration -> set of argument vectors
          MaxParses,   \* number of parse calls on one parser object (C14)
          EnvChanges,  \* BOOLEAN: the process environment may change between two calls on one parser
          LetterAdds(_) \* configuration -> set of <<option index, letter>>: short names the application may attach to
                       \* already declared options between two calls on one parser (AddLetter)

VARIABLES cfg,         \* the chosen configuration
          env,         \* the process environment (changes only between parse calls: ChangeEnv)
          argv,        \* vector of the current parse call
          cursor,      \* index of the next token
          st,          \* per option: [val, list, count, neg, prov]
          onlyPos,     \* everything from here on is positional
          byDD,        \* ... because "--" was seen (as opposed to greedy mode)
          positionals,
          acct,        \* ghost: one entry per consumed token: what it became
          phase,       \* "idle" | "scan" | "check" | "done" | "error"
          reason,      \* documented reason of the error
          chk,         \* index of the next option to check
          hist         \* ghost: the calls made so far on this parser: <<[argv, oc, st, pos]>>

vars == <<cfg, env, argv, cursor, st, onlyPos, byDD, positionals, acct, phase, reason, chk, hist>>

decl    == cfg.decl
allowed == cfg.allowed
greedy  == cfg.greedy
N       == Len(decl)

Fresh == [i \in 1..N |-> [val |-> <<>>, list |-> <<>>, count |-> 0, neg |-> FALSE, prov |-> FALSE]]

Init ==
  /\ cfg \in DeclSet
  /\ env \in EnvSet(cfg)
  /\ argv = <<>> /\ cursor = 1 /\ st = Fresh /\ onlyPos = FALSE /\ byDD = FALSE
  /\ positionals = <<>> /\ acct = <<>> /\ phase = "idle" /\ reason = "" /\ chk = 1 /\ hist = <<>>

LettersNow == [i \in 1..N |-> decl[i].letter]
LettersUnique == \A i, j \in 1..N : i # j /\ decl[i].letter # 0 => decl[i].letter # decl[j].letter

(* every parse call starts from a clean slate, whatever the previous call did (C14) *)
BeginParse ==
  /\ phase \in {"idle", "done", "error"} /\ Len(hist) < MaxParses
  /\ argv' \in ArgvSet(cfg)
  /\ cursor' = 1 /\ st' = Fresh /\ onlyPos' = FALSE /\ byDD' = FALSE /\ positionals' = <<>>
  /\ acct' = <<>> /\ chk' = 1
  /\ IF LettersUnique THEN phase' = "scan" /\ reason' = "" /\ hist' = hist
     ELSE phase' = "error" /\ reason' = "Inconsistent" /\ hist' = Append(hist, [argv |-> argv', res |-> [oc |-> "parser_error", st |-> <<>>, pos |-> <<>>], why |-> "Inconsistent", via |-> "argv", env |-> env, letters |-> LettersNow])
  /\ UNCHANGED <<cfg, env>>

Scanning == phase = "scan" /\ cursor <= Len(argv)
Tok  == argv[cursor]
Tgt  == TargetOf(decl, Tok)
OptionMode == Scanning /\ ~onlyPos /\ ~IsValueTok(Tok) /\ ~IsDD(Tok)

Fail(why) ==
  /\ phase' = "error" /\ reason' = why
  /\ hist' = Append(hist, [argv |-> argv, res |-> ErrorOutcome, why |-> why, via |-> "argv", env |-> env, letters |-> LettersNow])
  /\ UNCHANGED <<cfg, env, argv, cursor, st, onlyPos, byDD, positionals, acct, chk>>

Consume(k, entries) ==
  /\ cursor' = cursor + k /\ acct' = acct \o entries
  /\ UNCHANGED <<cfg, env, argv, phase, reason, chk, hist>>

Entry(role, i) == [role |-> role, i |-> i]

(* ---- positionals -------------------------------------------------------------------------------- *)
IsPositionalHere == Scanning /\ (onlyPos \/ IsValueTok(Tok))
LimitReached == allowed # Unlimited /\ Len(positionals) >= allowed

ScanPositional ==
  /\ IsPositionalHere /\ ~LimitReached
  /\ positionals' = Append(positionals, Tok)
  /\ onlyPos' = (onlyPos \/ greedy)
  /\ Consume(1, <<Entry("pos", 0)>>)
  /\ UNCHANGED <<st, byDD>>

ScanTooManyPositionals == IsPositionalHere /\ LimitReached /\ Fail("TooManyPositionals")

(* greedy mode, after the first positional, malformed token: the properties leave it open (see OptMeaning.GreedyOpen) *)
ScanGreedyMalformed ==
  /\ Scanning /\ onlyPos /\ ~byDD /\ IsMalformed(Tok) /\ Fail("Malformed")

ScanDoubleDash ==
  /\ Scanning /\ ~onlyPos /\ IsDD(Tok)
  /\ onlyPos' = TRUE /\ byDD' = TRUE
  /\ Consume(1, <<Entry("dd", 0)>>)
  /\ UNCHANGED <<st, positionals>>

(* ---- rejected tokens ---------------------------------------------------------------------------- *)
ScanBad == OptionMode /\ Tgt.k = "bad" /\ Fail(Tgt.why)

(* ---- value-taking options ----------------------------------------------------------------------- *)
GiveValue(i, v) ==
  IF decl[i].kind = "opt" THEN [st EXCEPT ![i].val = <<v>>, ![i].prov = TRUE]
  ELSE [st EXCEPT ![i].list = Append(@, v), ![i].prov = TRUE]

AlreadyGiven(i) == decl[i].kind = "opt" /\ st[i].val # <<>>

ScanOptionEq ==
  /\ OptionMode /\ Tgt.k = "opt" /\ HasEq(Tok) /\ ~AlreadyGiven(Tgt.i)
  /\ st' = GiveValue(Tgt.i, ValPart(Tok))
  /\ Consume(1, <<Entry("opt", Tgt.i)>>)
  /\ UNCHANGED <<onlyPos, byDD, positionals>>

NextIsValue == cursor + 1 <= Len(argv) /\ IsValueTok(argv[cursor + 1])

ScanOptionNext ==
  /\ OptionMode /\ Tgt.k = "opt" /\ ~HasEq(Tok) /\ NextIsValue /\ ~AlreadyGiven(Tgt.i)
  /\ st' = GiveValue(Tgt.i, argv[cursor + 1])
  /\ Consume(2, <<Entry("opt", Tgt.i), Entry("val", Tgt.i)>>)
  /\ UNCHANGED <<onlyPos, byDD, positionals>>

ScanOptionMissingValue ==
  /\ OptionMode /\ Tgt.k = "opt" /\ ~HasEq(Tok) /\ ~NextIsValue /\ Fail("MissingValue")

ScanOptionDuplicate ==
  /\ OptionMode /\ Tgt.k = "opt" /\ AlreadyGiven(Tgt.i) /\ (HasEq(Tok) \/ NextIsValue) /\ Fail("Duplicate")

(* ---- toggles -------------------------------------------------------------------------------------*)
ScanToggle ==
  /\ OptionMode /\ Tgt.k = "toggle" /\ ~st[Tgt.i].neg
  /\ st' = [st EXCEPT ![Tgt.i].count = @ + 1, ![Tgt.i].prov = TRUE]
  /\ Consume(1, <<Entry("toggle", Tgt.i)>>)
  /\ UNCHANGED <<onlyPos, byDD, positionals>>

ScanNoToggle ==
  /\ OptionMode /\ Tgt.k = "neg" /\ st[Tgt.i].count = 0
  /\ st' = [st EXCEPT ![Tgt.i].neg = TRUE, ![Tgt.i].prov = TRUE]
  /\ Consume(1, <<Entry("neg", Tgt.i)>>)
  /\ UNCHANGED <<onlyPos, byDD, positionals>>

BundleToggles == { i \in 1..N : decl[i].kind = "toggle" /\ decl[i].letter # 0
                                /\ CountByte(Letters(Tok), decl[i].letter) > 0 }

ScanBundle ==
  /\ OptionMode /\ Tgt.k = "bundle" /\ \A i \in BundleToggles : ~st[i].neg
  /\ st' = [i \in 1..N |-> IF i \in BundleToggles
                           THEN [st[i] EXCEPT !.count = @ + CountByte(Letters(Tok), decl[i].letter), !.prov = TRUE]
                           ELSE st[i]]
  /\ Consume(1, <<Entry("bundle", 0)>>)
  /\ UNCHANGED <<onlyPos, byDD, positionals>>

ScanPolarityConflict ==
  /\ OptionMode
  /\ \/ Tgt.k = "toggle" /\ st[Tgt.i].neg
     \/ Tgt.k = "neg" /\ st[Tgt.i].count > 0
     \/ Tgt.k = "bundle" /\ \E i \in BundleToggles : st[i].neg
  /\ Fail("PolarityConflict")

(* ---- after the last token: one check step per option --------------------------------------------- *)
EndScan ==
  /\ phase = "scan" /\ cursor > Len(argv)
  /\ phase' = "check"
  /\ UNCHANGED <<cfg, env, argv, cursor, st, onlyPos, byDD, positionals, acct, reason, chk, hist>>

Checking == phase = "check" /\ chk <= N
OnCli(i) == st[i].prov        \* during scan/check only the command line has set prov

CheckGiven ==
  /\ Checking /\ OnCli(chk)
  /\ chk' = chk + 1
  /\ UNCHANGED <<cfg, env, argv, cursor, st, onlyPos, byDD, positionals, acct, phase, reason, hist>>

CheckOtherSource ==
  /\ Checking /\ ~OnCli(chk)
  /\ LET o == FromOtherSources(decl, env, chk) IN
       /\ o.ok
       /\ st' = [st EXCEPT ![chk] = [val |-> o.st.val, list |-> o.st.list, count |-> o.st.count,
                                     neg |-> FALSE, prov |-> o.st.prov]]
  /\ chk' = chk + 1
  /\ UNCHANGED <<cfg, env, argv, cursor, onlyPos, byDD, positionals, acct, phase, reason, hist>>

CheckFails ==
  /\ Checking /\ ~OnCli(chk)
  /\ LET o == FromOtherSources(decl, env, chk) IN ~o.ok /\ Fail(o.why)

Result == [oc |-> "ok",
           st |-> [i \in 1..N |-> [val |-> st[i].val, list |-> st[i].list, count |-> st[i].count, prov |-> st[i].prov]],
           pos |-> positionals]

Finish ==
  /\ phase = "check" /\ chk > N
  /\ phase' = "done"
  /\ hist' = Append(hist, [argv |-> argv, res |-> Result, why |-> "", via |-> "argv", env |-> env, letters |-> LettersNow])
  /\ UNCHANGED <<cfg, env, argv, cursor, st, onlyPos, byDD, positionals, acct, reason, chk>>

ScanStep == ScanPositional \/ ScanTooManyPositionals \/ ScanGreedyMalformed \/ ScanDoubleDash \/ ScanBad
            \/ ScanOptionEq \/ ScanOptionNext \/ ScanOptionMissingValue \/ ScanOptionDuplicate
            \/ ScanToggle \/ ScanNoToggle \/ ScanBundle \/ ScanPolarityConflict
CheckStep == CheckGiven \/ CheckOtherSource \/ CheckFails

(* Between two calls the process environment may change (setenv by the application, a wrapper script).  The   *)
(* parser object keeps nothing from it: the next call reads the environment as it is then (C03, C14).  The    *)
(* machine goes back to "idle", so everything said about a finished call is said about the call's own env.    *)
BackToIdle ==
  /\ phase \in {"idle", "done", "error"} /\ Len(hist) < MaxParses
  /\ phase' = "idle" /\ argv' = <<>> /\ cursor' = 1 /\ st' = Fresh /\ onlyPos' = FALSE /\ byDD' = FALSE
  /\ positionals' = <<>> /\ acct' = <<>> /\ reason' = "" /\ chk' = 1
ChangeEnv ==
  /\ EnvChanges /\ BackToIdle
  /\ env' \in EnvSet(cfg) \ {env}
  /\ UNCHANGED <<cfg, hist>>

(* Between two calls the application may also go on declaring.  Modelled: attaching a short name to an option   *)
(* that has none yet (the number of options stays the same).  The next call is made with the declaration as it  *)
(* is then: the new letter is understood, and if it collides with another option's letter the parser refuses.  *)
AddLetter ==
  /\ BackToIdle
  /\ \E p \in LetterAdds(cfg) : /\ decl[p[1]].letter = 0
                                /\ cfg' = [cfg EXCEPT !.decl[p[1]].letter = p[2]]
  /\ UNCHANGED <<env, hist>>

Next == BeginParse \/ ScanStep \/ EndScan \/ CheckStep \/ Finish \/ ChangeEnv \/ AddLetter
Spec == Init /\ [][Next]_vars /\ WF_vars(ScanStep \/ EndScan \/ CheckStep \/ Finish)

------------------------------------------------------------------------------------------------------
(* properties *)

Terminal == phase \in {"done", "error"}
Reasons == {"Unknown", "NotReversible", "MissingValue", "Duplicate", "ToggleValue", "Malformed", "TooManyPositionals",
            "MissingRequired", "BadEnvWord", "PolarityConflict", "Inconsistent"}

TypeOK ==
  /\ phase \in {"idle", "scan", "check", "done", "error"}
  /\ reason \in Reasons \cup {""}
  /\ cursor \in 1..(Len(argv) + 1)
  /\ Len(acct) = cursor - 1

(* C04: a parse call always ends, in a result or in the user-input error *)
Terminates == [](phase = "scan" => <>Terminal)

(* The same fact in a form TLC checks cheaply on the large models: a parse call in progress is never stuck  *)
(* and every step decreases a natural-number measure.                                                     *)
Measure == CASE phase = "scan"  -> (Len(argv) - cursor + 1) + N + 2
             [] phase = "check" -> (N - chk + 1) + 1
             [] OTHER -> 0
NeverStuck == phase \in {"scan", "check"} => ENABLED (ScanStep \/ EndScan \/ CheckStep \/ Finish)
Progress == [][(phase \in {"scan", "check"}) => (Measure' < Measure)]_vars

Outcome == IF phase = "done" THEN Result ELSE ErrorOutcome
M == Meaning(decl, allowed, greedy, env, argv)

(* the loop computes the meaning (C01-C04, C11, C12 rest on this equality) ...                       *)
MachineIsMeaning ==
  Terminal /\ reason # "Inconsistent" =>
    \/ Outcome = M
    \/ GreedyOpen(decl, greedy, argv)   \* ... except where the properties leave the outcome open
(* ... and, C14, on *every* call of a history: what the k-th call returned is the meaning of its vector alone *)
DeclAt(k) == [i \in 1..N |-> [decl[i] EXCEPT !.letter = hist[k].letters[i]]]      \* the declaration as it was at call k
Repeatable ==
  \A k \in 1..Len(hist) : \/ hist[k].res = (IF hist[k].via = "inputs" THEN MeaningViaInputs(DeclAt(k), allowed, greedy, hist[k].env, hist[k].argv)
                                           ELSE Meaning(DeclAt(k), allowed, greedy, hist[k].env, hist[k].argv))
                           \/ GreedyOpen(DeclAt(k), greedy, hist[k].argv)
                           \/ hist[k].res.oc = "parser_error"

(* C04: the error is raised exactly under the documented conditions *)
ErrorIffDocumented ==
  /\ phase = "error" => reason \in Reasons
  /\ Terminal /\ ~GreedyOpen(decl, greedy, argv) /\ reason # "Inconsistent" =>
       ((phase = "error") <=> Rejects(decl, allowed, greedy, env, argv))

(* C01: whenever parsing succeeds every token is accounted for, consistently with the result *)
RoleIdx(r) == { j \in 1..Len(acct) : acct[j].role = r }
RECURSIVE PickSeq(_, _, _)
PickSeq(s, S, j) == IF j > Len(s) THEN <<>> ELSE (IF j \in S THEN <<s[j]>> ELSE <<>>) \o PickSeq(s, S, j + 1)
RECURSIVE SumMult(_, _)
SumMult(i, j) == IF j > Len(argv) THEN 0
                 ELSE (IF acct[j].role \in {"toggle", "bundle"} THEN Multiplicity(decl, argv[j], i) ELSE 0) + SumMult(i, j + 1)

RECURSIVE CliValues(_, _)
CliValues(i, j) == IF j > Len(argv) THEN <<>>
                   ELSE (IF acct[j].role = "opt" /\ acct[j].i = i
                         THEN <<IF HasEq(argv[j]) THEN ValPart(argv[j]) ELSE argv[j + 1]>> ELSE <<>>) \o CliValues(i, j + 1)

Accounted ==
  phase = "done" =>
    /\ Len(acct) = Len(argv)
    /\ positionals = PickSeq(argv, RoleIdx("pos"), 1)                          \* positionals verbatim, in order
    /\ Cardinality(RoleIdx("dd")) <= 1
    /\ \A j \in RoleIdx("opt") :
         LET i == acct[j].i
             v == IF HasEq(argv[j]) THEN ValPart(argv[j]) ELSE argv[j + 1]
         IN /\ TakesValue(decl, i)
            /\ ~HasEq(argv[j]) => acct[j + 1].role = "val"
            /\ IF decl[i].kind = "opt" THEN st[i].val = <<v>> ELSE \E k \in 1..Len(st[i].list) : st[i].list[k] = v
    /\ \A j \in RoleIdx("val") : j > 1 /\ acct[j - 1].role = "opt" /\ ~HasEq(argv[j - 1])
    /\ \A j \in RoleIdx("bundle") :                                              \* every letter is a declared toggle
         \A k \in 1..Len(Letters(argv[j])) :
           \E i \in 1..N : decl[i].kind = "toggle" /\ decl[i].letter = Letters(argv[j])[k]
    /\ \A i \in 1..N : decl[i].kind = "toggle" /\ (\E j \in RoleIdx("toggle") \cup RoleIdx("bundle") : Multiplicity(decl, argv[j], i) > 0)
                        => st[i].count = SumMult(i, 1)                            \* ... and was counted
    /\ \A i \in 1..N : decl[i].kind = "multi" /\ (\E j \in RoleIdx("opt") : acct[j].i = i)
                        => st[i].list = CliValues(i, 1)                           \* multi values in command-line order

(* a scan step either accounts for the token(s) it consumed or ends in the error *)
ScanAccounts == [][phase = "scan" /\ phase' = "scan" => Len(acct') = cursor' - 1 /\ cursor' >= cursor]_vars

(* C03: ranking of sources and the meaning of `provided` *)
Ranked ==
  phase = "done" =>
    \A i \in 1..N :
      LET cli == \/ \E j \in 1..Len(acct) : (acct[j].role \in {"opt", "toggle", "neg"} /\ acct[j].i = i)
                 \/ \E j \in RoleIdx("bundle") : Multiplicity(decl, argv[j], i) > 0
          e   == EnvOf(decl, env, i)
      IN /\ st[i].prov <=> (cli \/ e # <<>>)
         /\ ~cli /\ e # <<>> /\ decl[i].kind = "opt" => st[i].val = <<e>>                 \* verbatim
         /\ ~cli /\ e # <<>> /\ decl[i].kind = "multi" => Glue(st[i].list, <<SEMI>>) \in {e, SubSeq(e, 1, Len(e) - 1)}
         /\ ~cli /\ e = <<>> /\ decl[i].kind = "opt" => st[i].val = decl[i].dflt
         /\ ~cli /\ e = <<>> /\ decl[i].kind = "toggle" => st[i].count = decl[i].dflt[1]

RequiredHaveValue ==
  phase = "done" =>
    \A i \in 1..N : /\ decl[i].kind = "opt" /\ ~decl[i].optional => st[i].val # <<>>
                    /\ decl[i].kind = "multi" /\ ~decl[i].optional /\ decl[i].dflt = <<>> => st[i].list # <<>>

(* C11 / C12 facts on the result *)
TogglesCount ==
  phase = "done" =>
    \A i \in 1..N : decl[i].kind = "toggle" /\ st[i].neg => st[i].count = 0 /\ decl[i].rev

PositionalsWithinLimit ==
  phase = "done" => (allowed = Unlimited \/ Len(positionals) <= allowed)

AfterDDEverythingPositional ==
  phase = "done" /\ byDD =>
    LET d == MinOf(RoleIdx("dd")) IN \A j \in (d + 1)..Len(argv) : acct[j].role = "pos"

(* export: one case per finished history *)
CaseRec == [cfg |-> cfg.id, env |-> env, calls |-> hist,      \* each call carries the environment it was made in
            open |-> [k \in 1..Len(hist) |-> GreedyOpen(DeclAt(k), greedy, hist[k].argv)],
            \* expected outcome class of the same calls made through parse(vector<user_input>)
            inputs |-> [k \in 1..Len(hist) |-> IF hist[k].res.oc = "parser_error" THEN "parser_error"
                                               ELSE MeaningViaInputs(DeclAt(k), allowed, greedy, hist[k].env, hist[k].argv).oc]]
Emit == (Terminal /\ Len(hist) = MaxParses) => PrintT("CASE " \o ToJson(CaseRec))
=============================================================================
