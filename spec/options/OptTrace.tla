------------------------------ MODULE OptTrace ------------------------------
(* code -> spec for the option parser.  One event per public parse call, logged at its return:     *)
(*   {"e":"Parse", "cfg": <declaration>, "env": [...], "argv": [...], "oc": "ok"|"error"|<other class>,*)
(*    "st": [...], "pos": [...]}                                                                     *)
(* Between two Reset events all Parse events are calls on ONE parser object, so the history         *)
(* variable of OptParse grows and Repeatable (C14) is evaluated on it after every call.             *)
(* The multi-step scan/check of OptParse is internal to a call; the trace action composes it into   *)
(* one step through OptMeaning.Meaning, which TLC has shown equal to the machine on the design      *)
(* models (invariant MachineIsMeaning).                                                             *)
EXTENDS OptParse, TraceIO

VARIABLE l

NoSet(c) == {}

NoCfg == [id |-> 0, decl |-> <<>>, allowed |-> 0, greedy |-> FALSE]

TInit ==
  /\ l = 1 /\ cfg = NoCfg /\ env = <<>> /\ argv = <<>> /\ cursor = 1 /\ st = <<>> /\ onlyPos = FALSE
  /\ byDD = FALSE /\ positionals = <<>> /\ acct = <<>> /\ phase = "idle" /\ reason = "" /\ chk = 1 /\ hist = <<>>

TReset ==
  /\ l <= TraceLen /\ TraceLog[l].e = "Reset"
  /\ l' = l + 1 /\ cfg' = NoCfg /\ env' = <<>> /\ argv' = <<>> /\ cursor' = 1 /\ st' = <<>> /\ onlyPos' = FALSE
  /\ byDD' = FALSE /\ positionals' = <<>> /\ acct' = <<>> /\ phase' = "idle" /\ reason' = "" /\ chk' = 1 /\ hist' = <<>>

TParse ==
  /\ l <= TraceLen /\ TraceLog[l].e = "Parse"
  /\ LET ev == TraceLog[l]
         c  == [id |-> 0, decl |-> ev.cfg.decl, allowed |-> ev.cfg.allowed, greedy |-> ev.cfg.greedy]
         m  == IF ev.via = "inputs" THEN MeaningViaInputs(c.decl, c.allowed, c.greedy, ev.env, ev.argv)
               ELSE Meaning(c.decl, c.allowed, c.greedy, ev.env, ev.argv)
         obs == [oc |-> ev.oc, st |-> ev.st, pos |-> ev.pos]
     IN /\ (hist # <<>> => c = cfg)                        \* same parser object; the environment may have changed (ChangeEnv)
        /\ \/ obs = m
           \/ GreedyOpen(c.decl, c.greedy, ev.argv) /\ ev.oc \in {"ok", "error"}
        \* C02: when the driver rendered the vector from an assignment, the vector must spell it
        /\ (ev.want.k = "some" /\ ev.via = "argv") => m = [oc |-> "ok", st |-> ev.want.st, pos |-> ev.want.pos]
        /\ cfg' = c /\ env' = ev.env /\ argv' = ev.argv
        /\ hist' = Append(hist, [argv |-> ev.argv, res |-> obs, why |-> "", via |-> ev.via, env |-> ev.env, letters |-> [i \in 1..Len(c.decl) |-> c.decl[i].letter]])
        /\ phase' = (IF ev.oc = "ok" THEN "done" ELSE "error")
        /\ reason' = (IF ev.oc = "ok" THEN "" ELSE "Unknown")
        /\ positionals' = ev.pos
  /\ l' = l + 1
  /\ UNCHANGED <<cursor, st, onlyPos, byDD, acct, chk>>

TNext == TReset \/ TParse
TSpec == TInit /\ [][TNext]_<<vars, l>>
Track == TrackCursor(l)
Report == ReportMatched

(* the invariants of OptParse that are meaningful on the projected state *)
TRepeatable == Repeatable
TLimit == phase = "done" => (allowed = Unlimited \/ Len(positionals) <= allowed)
=============================================================================
