SPECIFICATION Spec
CONSTANTS
  DeclSet <- MCDeclSet
  EnvSet <- MCEnvSet
  ArgvSet <- MCArgvSet
  MaxParses = 1
  EnvChanges = FALSE
  LetterAdds <- MCLetterAdds
INVARIANTS TypeOK NeverStuck MachineIsMeaning Repeatable ErrorIffDocumented Accounted Ranked RequiredHaveValue TogglesCount PositionalsWithinLimit AfterDDEverythingPositional Emit
PROPERTIES ScanAccounts Progress
CHECK_DEADLOCK FALSE
