---------------------------- MODULE OptDeclTrace ----------------------------
(* code -> spec for declarations: one event per declaration call with its outcome class, the identity *)
(* of the returned object and the projected declaration state.                                         *)
EXTENDS OptDecl, TraceIO

VARIABLE l
Ev == TraceLog[l]

TInit == l = 1 /\ Init
TReset == /\ l <= TraceLen /\ Ev.e = "Reset" /\ l' = l + 1
          /\ moved' = FALSE /\ objs' = <<>> /\ groups' = <<>> /\ last' = [op |-> "init", args |-> <<>>, out |-> "ok", id |-> 0]

Dispatch ==
  CASE Ev.e = "Group"      -> Group(Ev.args[1]) /\ UNCHANGED moved
    [] Ev.e = "Declare"    -> Declare(Ev.args[1], Ev.args[2], Ev.args[3]) /\ UNCHANGED moved
    [] Ev.e = "ShortName"  -> ShortName(Ev.args[1], Ev.args[2]) /\ UNCHANGED moved
    [] Ev.e = "Env"        -> Env(Ev.args[1], Ev.args[2]) /\ UNCHANGED moved
    [] Ev.e = "Metavar"    -> Metavar(Ev.args[1], Ev.args[2]) /\ UNCHANGED moved
    [] Ev.e = "MoveParser" -> MoveParser
    [] Ev.e = "MoveAssignParser" -> MoveAssignParser
    [] Ev.e = "TryParse"   -> TryParse /\ UNCHANGED moved
    [] OTHER -> FALSE

TCall ==
  /\ l <= TraceLen /\ Ev.e # "Reset"
  /\ Dispatch
  /\ last'.out = Ev.out
  /\ (Ev.e \in {"Declare", "ShortName", "Env", "Metavar"} /\ Ev.out = "ok") => last'.id = Ev.id
  /\ objs' = Ev.objs /\ groups' = Ev.groups
  /\ (Ev.e = "TryParse" /\ Ev.out = "ok") => Ev.resolves = ""
  /\ l' = l + 1

TNext == TReset \/ TCall
TSpec == TInit /\ [][TNext]_<<vars, l>>
Track == TrackCursor(l)
Report == ReportMatched
=============================================================================
