----------------------------- MODULE UsageLayout -----------------------------
(* Design model behind property C15's width rule: greedy word wrapping into a column that starts at     *)
(* LeftPad and ends at MaxWidth, after a header of any length (the "usage: app" prefix, or the           *)
(* "  -s, --name META" part of an option line).  One step per word.  TLC shows for every sequence of     *)
(* word lengths up to the bound that (a) no word is lost or reordered and (b) a line is longer than      *)
(* MaxWidth only if it holds a word that fits in no line of the column.  Strict = FALSE is the           *)
(* off-by-one variant that shipped (a word of exactly the column width counted as unbreakable) and is    *)
(* the negative control: it violates (b).                                                                *)
EXTENDS Naturals, Sequences, FiniteSets, TLC

CONSTANTS Lens,        \* word lengths
          MaxWords, LeftPad, MaxWidth,
          Headers,     \* header lengths (column at which the first word would start)
          Strict       \* TRUE: only words longer than the column are unbreakable

VARIABLES words, header, i, lines, cur, space
(* lines: finished lines, each [len, ws]; cur: the line under construction *)
vars == <<words, header, i, lines, cur, space>>

Column == MaxWidth - LeftPad
Unbreakable(w) == IF Strict THEN w > Column ELSE w + 1 > Column

Init ==
  /\ words \in UNION { [1..n -> Lens] : n \in 0..MaxWords } /\ header \in Headers
  /\ i = 1 /\ lines = <<>>
  /\ IF header <= LeftPad THEN cur = [len |-> LeftPad, ws |-> <<>>] /\ space = Column    \* padded up to the column
     ELSE cur = [len |-> header, ws |-> <<>>] /\ space = 0                               \* header already past the column

Place ==
  /\ i <= Len(words)
  /\ LET w == words[i] IN
       IF Unbreakable(w) \/ w + 1 <= space
       THEN /\ cur' = [len |-> cur.len + (IF cur.ws = <<>> /\ cur.len = LeftPad THEN w ELSE w + 1), ws |-> Append(cur.ws, w)]
            /\ space' = space - (w + 1) /\ lines' = lines
       ELSE /\ lines' = Append(lines, cur)
            /\ cur' = [len |-> LeftPad + w, ws |-> <<w>>]
            /\ space' = Column - (w + 1)
  /\ i' = i + 1 /\ UNCHANGED <<words, header>>

Next == Place
Spec == Init /\ [][Next]_vars /\ WF_vars(Next)

Done == i > Len(words)
AllLines == Append(lines, cur)
RECURSIVE Flat(_)
Flat(ls) == IF ls = <<>> THEN <<>> ELSE Head(ls).ws \o Flat(Tail(ls))

NothingLost == Done => Flat(AllLines) = words
WidthRule ==
  \A k \in 1..Len(AllLines) :
    AllLines[k].len <= MaxWidth \/ \E j \in 1..Len(AllLines[k].ws) : AllLines[k].ws[j] > Column
Terminates == <>Done
=============================================================================
