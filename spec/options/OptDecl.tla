------------------------------ MODULE OptDecl ------------------------------
(* Declarations of an option parser (property C13): a long name denotes at most one option across    *)
(* all groups and kinds; a short name is one character and cannot be changed; a parser in which two   *)
(* options share a letter refuses to parse; moving the parser object changes nothing.                 *)
(*                                                                                                    *)
(* State: the declared options in creation order (the index is the object identity), the groups in    *)
(* creation order.  One action per declaration call, with both outcomes.                              *)
EXTENDS Naturals, Sequences, FiniteSets, TLC, Json

CONSTANTS Names, Groups, Kinds, LetterArgs, EnvArgs, MetaArgs, MaxObjs
(* Groups: named groups ("" stands for the parser's default group); LetterArgs: strings passed to      *)
(* short_name(), EnvArgs: strings passed to env(), MetaArgs: strings passed to metavar()               *)

VARIABLES moved,     \* ghost: the parser object has been moved at least once.  Nothing may depend on it -- it is part
                     \* of the state only so that the transition tour takes every declaration edge also after a move
          objs,      \* sequence of [kind, grp, name, letter, env, meta]
          groups,    \* sequence of named groups created so far
          last       \* ghost: [op, args, out, id]  out: "ok" | "parser_error" ; id: object returned (0 = none)

vars == <<objs, groups, last, moved>>

Ids == 1..Len(objs)
Init == moved = FALSE /\ objs = <<>> /\ groups = <<>> /\ last = [op |-> "init", args |-> <<>>, out |-> "ok", id |-> 0]

Ok(o, a, i) == last' = [op |-> o, args |-> a, out |-> "ok", id |-> i]
Err(o, a) == last' = [op |-> o, args |-> a, out |-> "parser_error", id |-> 0] /\ UNCHANGED <<objs, groups>>

HasGroup(g) == g = "" \/ \E k \in 1..Len(groups) : groups[k] = g

Group(g) ==          \* parser.group(name): creates it on first use, returns the same group afterwards
  /\ g \in Groups \ {""}
  /\ groups' = IF HasGroup(g) THEN groups ELSE Append(groups, g)
  /\ Ok("Group", <<g>>, 0) /\ UNCHANGED objs

Same(i, kind, g, n) == objs[i].kind = kind /\ objs[i].grp = g /\ objs[i].name = n

Declare(kind, g, n) ==
  /\ kind \in Kinds /\ g \in Groups /\ n \in Names /\ HasGroup(g)
  /\ IF \E i \in Ids : Same(i, kind, g, n)
     THEN /\ Ok("Declare", <<kind, g, n>>, CHOOSE i \in Ids : Same(i, kind, g, n))     \* the identical object
          /\ UNCHANGED <<objs, groups>>
     ELSE IF \E i \in Ids : objs[i].name = n
          THEN Err("Declare", <<kind, g, n>>)             \* the name means something else already
          ELSE /\ Len(objs) < MaxObjs
               /\ objs' = Append(objs, [kind |-> kind, grp |-> g, name |-> n, letter |-> "", env |-> "", meta |-> "ARG"])
               /\ Ok("Declare", <<kind, g, n>>, Len(objs) + 1) /\ UNCHANGED groups

StrLen(s) == CASE s = "" -> 0 [] s \in {"x", "y", "z"} -> 1 [] OTHER -> 2

ShortName(i, s) ==
  /\ i \in Ids /\ s \in LetterArgs
  /\ IF StrLen(s) # 1 \/ (objs[i].letter # "" /\ objs[i].letter # s)
     THEN Err("ShortName", <<i, s>>)
     ELSE objs' = [objs EXCEPT ![i].letter = s] /\ Ok("ShortName", <<i, s>>, i) /\ UNCHANGED groups

Env(i, e) ==
  /\ i \in Ids /\ e \in EnvArgs
  /\ IF objs[i].env # "" /\ objs[i].env # e
     THEN Err("Env", <<i, e>>)
     ELSE objs' = [objs EXCEPT ![i].env = e] /\ Ok("Env", <<i, e>>, i) /\ UNCHANGED groups

Metavar(i, m) ==
  /\ i \in Ids /\ m \in MetaArgs
  /\ IF m = "" THEN Err("Metavar", <<i, m>>)
     ELSE objs' = [objs EXCEPT ![i].meta = m] /\ Ok("Metavar", <<i, m>>, i) /\ UNCHANGED groups

MoveParser ==        \* the parser object is move-constructed elsewhere and the old one destroyed
  /\ Ok("MoveParser", <<>>, 0) /\ UNCHANGED <<objs, groups>> /\ moved' = TRUE

MoveAssignParser ==  \* another parser object is move-assigned from this one, which is then destroyed
  /\ Ok("MoveAssignParser", <<>>, 0) /\ UNCHANGED <<objs, groups>> /\ moved' = TRUE

LettersClash == \E i, j \in Ids : i # j /\ objs[i].letter # "" /\ objs[i].letter = objs[j].letter

TryParse ==          \* parse(): refuses with the developer error iff two options share a letter
  /\ IF LettersClash THEN Err("TryParse", <<>>)
     ELSE Ok("TryParse", <<>>, 0) /\ UNCHANGED <<objs, groups>>

Next ==
  \/ ( \/ \E g \in Groups : Group(g)
       \/ \E kind \in Kinds, g \in Groups, n \in Names : Declare(kind, g, n)
       \/ \E i \in Ids : (\E s \in LetterArgs : ShortName(i, s)) \/ (\E e \in EnvArgs : Env(i, e)) \/ (\E m \in MetaArgs : Metavar(i, m))
       \/ TryParse ) /\ UNCHANGED moved
  \/ MoveParser \/ MoveAssignParser
Spec == Init /\ [][Next]_vars

------------------------------------------------------------------------------------------------------
(* a long name denotes at most one option, across groups and kinds *)
NamesUnique == \A i, j \in Ids : objs[i].name = objs[j].name => i = j
(* a short name is exactly one character *)
LettersOneChar == \A i \in Ids : objs[i].letter = "" \/ StrLen(objs[i].letter) = 1
(* whenever parsing is allowed, names and letters resolve to exactly one option *)
Unambiguous ==
  last.op = "TryParse" /\ last.out = "ok" =>
    \A i, j \in Ids : i # j => objs[i].name # objs[j].name /\ (objs[i].letter = "" \/ objs[i].letter # objs[j].letter)
(* a short name, once set, never changes; objects are never forgotten; a failed call changes nothing *)
Monotone ==
  [][/\ Len(objs') >= Len(objs)
     /\ \A i \in Ids : objs'[i].name = objs[i].name /\ objs'[i].kind = objs[i].kind /\ objs'[i].grp = objs[i].grp
                       /\ (objs[i].letter # "" => objs'[i].letter = objs[i].letter)
     /\ (last'.out = "parser_error" => objs' = objs)]_vars
MoveChangesNothing == [][last'.op \in {"MoveParser", "MoveAssignParser"} => objs' = objs /\ groups' = groups /\ last'.out = "ok"]_vars

Abs == [objs |-> objs, groups |-> groups, moved |-> moved]
EmitEdge == PrintT("EDGE " \o ToJson([from |-> Abs, act |-> last', to |-> [objs |-> objs', groups |-> groups', moved |-> moved']]))
View == <<objs, groups, moved>>
=============================================================================
