------------------------------- MODULE OptLex -------------------------------
(* Normative lexer of a command-line token (a byte string), written from properties C01-C04/C12:   *)
(*   name part  = text before the first '=' (the whole token if there is none)                     *)
(*   value part = everything after the first '=', any bytes                                         *)
(*   value token  <=> the name part is empty or does not start with '-'                             *)
(*   separator    <=> the token is exactly "--"                                                     *)
(*   short token  <=> name part is '-' followed by a non-dash, then anything                        *)
(*   long token   <=> name part is "--" followed by a non-dash, then anything                       *)
(*   malformed    <=> none of these  ("-", "---x", "-=x", "--=x", "--=", ...)                       *)
(* Every operator binds the name part once and is linear in the token (see DESIGN section 7).       *)
EXTENDS Naturals, Sequences, FiniteSets, Bytes

DASH == 45
EQS  == 61
NOPFX == <<110, 111, 45>>     \* "no-"

EqPos(t)     == IndexOf(t, EQS)
HasEq(t)     == EqPos(t) # 0
NamePart(t)  == LET e == EqPos(t) IN IF e = 0 THEN t ELSE SubSeq(t, 1, e - 1)
ValPart(t)   == Tail0(t, EqPos(t) + 1)

\* (IF, not \/: inside an action TLC explores both disjuncts, so a guard must not rely on short-circuiting)
IsValueTok(t) == LET n == NamePart(t) IN IF n = <<>> THEN TRUE ELSE n[1] # DASH
IsDD(t)       == t = <<DASH, DASH>>
IsShortTok(t) == LET n == NamePart(t) IN Len(n) > 1 /\ n[1] = DASH /\ n[2] # DASH
IsLongTok(t)  == LET n == NamePart(t) IN Len(n) > 2 /\ n[1] = DASH /\ n[2] = DASH /\ n[3] # DASH
IsMalformed(t) == ~IsValueTok(t) /\ ~IsDD(t) /\ ~IsShortTok(t) /\ ~IsLongTok(t)

LongName(t) == Tail0(NamePart(t), 3)      \* for long tokens
Letters(t)  == Tail0(NamePart(t), 2)      \* for short tokens: the sequence of letters

TokClass(t) == IF IsValueTok(t) THEN "value" ELSE IF IsDD(t) THEN "dd" ELSE IF IsShortTok(t) THEN "short"
               ELSE IF IsLongTok(t) THEN "long" ELSE "malformed"
=============================================================================
