------------------------------ MODULE OptRender ------------------------------
(* Property C02: every spelling of a command line parses back to the assignment it spells.          *)
(*                                                                                                  *)
(* Init picks an *assignment* (a value or nothing per option, an ordered list per multi-option, an  *)
(* occurrence count per toggle, an ordered list of positionals).  Render* actions then spell it,    *)
(* item by item, into an argument vector, with every admissible choice left to TLC:                 *)
(*   - per option occurrence  --name value | --name=value | -s value | -s=value                     *)
(*     (the next-token forms only when the value is a value token, i.e. does not look like an option)*)
(*   - per toggle occurrence  --name | -s | a bundle -st / -ss shared with another pending occurrence*)
(*   - positionals inline when they are value tokens, or after the separator "--"                   *)
(*   - any interleaving of the items that keeps multi-option values and positionals in order        *)
(* Then the parse machine of OptParse runs on the vector.  RoundTrip: it ends in "done" with exactly*)
(* the assignment.                                                                                  *)
EXTENDS OptParse

CONSTANTS Vals,        \* value strings
          MaxMulti, MaxPos, MaxCount,
          MaxItems     \* bound on the number of items of an assignment (exhaustive models; large for simulation)

VARIABLES want,        \* the assignment: [opt: i -> <<>>|<<v>>, multi: i -> seq, cnt: i -> Nat, pos: seq]
          rem,         \* what is still to be spelled, same shape
          ddOut        \* the separator has been emitted

rvars == <<want, rem, ddOut>>
allvars == <<vars, rvars>>

OptIdxs   == { i \in 1..N : decl[i].kind = "opt" }
MultiIdxs == { i \in 1..N : decl[i].kind = "multi" }
TogIdxs   == { i \in 1..N : decl[i].kind = "toggle" }

RECURSIVE SumOver(_, _)
SumOver(S, f) == IF S = {} THEN 0 ELSE LET x == CHOOSE x \in S : TRUE IN f[x] + SumOver(S \ {x}, f)
NumItems(w) == Cardinality({ i \in DOMAIN w.opt : w.opt[i] # <<>> })
               + SumOver(DOMAIN w.multi, [i \in DOMAIN w.multi |-> Len(w.multi[i])])
               + SumOver(DOMAIN w.cnt, w.cnt) + Len(w.pos)

SeqsUpTo(S, n) == UNION { [1..k -> S] : k \in 0..n }

RInit ==
  /\ cfg \in DeclSet
  /\ env \in EnvSet(cfg)
  /\ want \in [opt : [OptIdxs -> {<<>>} \cup { <<v>> : v \in Vals }],
               multi : [MultiIdxs -> SeqsUpTo(Vals, MaxMulti)],
               cnt : [TogIdxs -> 0..MaxCount],
               pos : SeqsUpTo(Vals, MaxPos)]
  /\ NumItems(want) <= MaxItems
  /\ rem = want /\ ddOut = FALSE
  /\ argv = <<>> /\ cursor = 1 /\ st = Fresh /\ onlyPos = FALSE /\ byDD = FALSE
  /\ positionals = <<>> /\ acct = <<>> /\ phase = "idle" /\ reason = "" /\ chk = 1 /\ hist = <<>>

Rendering == phase = "idle"
NothingButPositionals(r) == /\ \A i \in OptIdxs : r.opt[i] = <<>>
                            /\ \A i \in MultiIdxs : r.multi[i] = <<>>
                            /\ \A i \in TogIdxs : r.cnt[i] = 0
AllSpelled == NothingButPositionals(rem) /\ rem.pos = <<>>

Long(i)  == <<DASH, DASH>> \o decl[i].name
Short(i) == <<DASH, decl[i].letter>>

(* the admissible spellings of "option i gets value v": sequences of one or two tokens *)
Spellings(i, v) ==
  { <<Long(i) \o <<EQS>> \o v>> }
  \cup (IF IsValueTok(v) THEN { <<Long(i), v>> } ELSE {})
  \cup (IF decl[i].letter # 0 THEN { <<Short(i) \o <<EQS>> \o v>> } ELSE {})
  \cup (IF decl[i].letter # 0 /\ IsValueTok(v) THEN { <<Short(i), v>> } ELSE {})

Emit2(toks) == argv' = argv \o toks

RenderOption ==
  /\ Rendering /\ ~ddOut
  /\ \E i \in OptIdxs : /\ rem.opt[i] # <<>>
                        /\ \E sp \in Spellings(i, rem.opt[i][1]) : Emit2(sp)
                        /\ rem' = [rem EXCEPT !.opt[i] = <<>>]
  /\ UNCHANGED <<cfg, env, cursor, st, onlyPos, byDD, positionals, acct, phase, reason, chk, hist, want, ddOut>>

RenderMulti ==
  /\ Rendering /\ ~ddOut
  /\ \E i \in MultiIdxs : /\ rem.multi[i] # <<>>
                          /\ \E sp \in Spellings(i, Head(rem.multi[i])) : Emit2(sp)
                          /\ rem' = [rem EXCEPT !.multi[i] = Tail(@)]
  /\ UNCHANGED <<cfg, env, cursor, st, onlyPos, byDD, positionals, acct, phase, reason, chk, hist, want, ddOut>>

RenderToggle ==
  /\ Rendering /\ ~ddOut
  /\ \E i \in TogIdxs : /\ rem.cnt[i] > 0
                        /\ \/ Emit2(<<Long(i)>>)
                           \/ decl[i].letter # 0 /\ Emit2(<<Short(i)>>)
                        /\ rem' = [rem EXCEPT !.cnt[i] = @ - 1]
  /\ UNCHANGED <<cfg, env, cursor, st, onlyPos, byDD, positionals, acct, phase, reason, chk, hist, want, ddOut>>

(* two pending occurrences (of one toggle or of two) share one short token *)
RenderBundle ==
  /\ Rendering /\ ~ddOut
  /\ \E i, j \in TogIdxs :
       /\ decl[i].letter # 0 /\ decl[j].letter # 0
       /\ IF i = j THEN rem.cnt[i] >= 2 ELSE rem.cnt[i] >= 1 /\ rem.cnt[j] >= 1
       /\ Emit2(<< <<DASH, decl[i].letter, decl[j].letter>> >>)
       /\ rem' = IF i = j THEN [rem EXCEPT !.cnt[i] = @ - 2] ELSE [rem EXCEPT !.cnt[i] = @ - 1, !.cnt[j] = @ - 1]
  /\ UNCHANGED <<cfg, env, cursor, st, onlyPos, byDD, positionals, acct, phase, reason, chk, hist, want, ddOut>>

RenderPositionalInline ==
  /\ Rendering /\ ~ddOut /\ rem.pos # <<>> /\ IsValueTok(Head(rem.pos))
  /\ (greedy => NothingButPositionals(rem))      \* in greedy mode nothing may follow a positional
  /\ Emit2(<<Head(rem.pos)>>)
  /\ rem' = [rem EXCEPT !.pos = Tail(@)]
  /\ UNCHANGED <<cfg, env, cursor, st, onlyPos, byDD, positionals, acct, phase, reason, chk, hist, want, ddOut>>

RenderSeparator ==
  /\ Rendering /\ ~ddOut /\ NothingButPositionals(rem)
  /\ (greedy => rem.pos = want.pos)     \* in greedy mode a "--" after the first positional would itself be a positional
  /\ Emit2(<< <<DASH, DASH>> >>) /\ ddOut' = TRUE
  /\ UNCHANGED <<cfg, env, cursor, st, onlyPos, byDD, positionals, acct, phase, reason, chk, hist, want, rem>>

RenderPositionalAfterDD ==
  /\ Rendering /\ ddOut /\ rem.pos # <<>>
  /\ Emit2(<<Head(rem.pos)>>)
  /\ rem' = [rem EXCEPT !.pos = Tail(@)]
  /\ UNCHANGED <<cfg, env, cursor, st, onlyPos, byDD, positionals, acct, phase, reason, chk, hist, want, ddOut>>

BeginRendered ==
  /\ Rendering /\ AllSpelled /\ hist = <<>>
  /\ phase' = "scan"
  /\ UNCHANGED <<cfg, env, argv, cursor, st, onlyPos, byDD, positionals, acct, reason, chk, hist, want, rem, ddOut>>

RenderStep == RenderOption \/ RenderMulti \/ RenderToggle \/ RenderBundle \/ RenderPositionalInline
              \/ RenderSeparator \/ RenderPositionalAfterDD

RNext == RenderStep \/ BeginRendered
         \/ ((ScanStep \/ EndScan \/ CheckStep \/ Finish) /\ UNCHANGED rvars)
RSpec == RInit /\ [][RNext]_allvars

(* what the assignment demands of the result *)
Expected(i) ==
  CASE decl[i].kind = "opt" ->
         IF want.opt[i] # <<>> THEN [val |-> want.opt[i], list |-> <<>>, count |-> 0, prov |-> TRUE]
         ELSE FromOtherSources(decl, env, i).st
    [] decl[i].kind = "multi" ->
         IF want.multi[i] # <<>> THEN [val |-> <<>>, list |-> want.multi[i], count |-> 0, prov |-> TRUE]
         ELSE FromOtherSources(decl, env, i).st
    [] decl[i].kind = "toggle" ->
         IF want.cnt[i] > 0 THEN [val |-> <<>>, list |-> <<>>, count |-> want.cnt[i], prov |-> TRUE]
         ELSE FromOtherSources(decl, env, i).st

RoundTrip ==
  Terminal =>
    /\ phase = "done"
    /\ Result.pos = want.pos
    /\ \A i \in 1..N : Result.st[i] = Expected(i)

(* every rendering is accounted for token by token as well (C01 on the rendered vectors) *)
RAccounted == Accounted
RMeaning == MachineIsMeaning

RCaseRec == [cfg |-> cfg.id, env |-> env, calls |-> hist, open |-> [k \in 1..Len(hist) |-> FALSE], want |-> want,
             inputs |-> [k \in 1..Len(hist) |-> MeaningViaInputs(decl, allowed, greedy, env, hist[k].argv).oc]]
REmit == (Terminal /\ hist # <<>>) => PrintT("CASE " \o ToJson(RCaseRec))
=============================================================================
