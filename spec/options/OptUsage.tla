------------------------------ MODULE OptUsage ------------------------------
(* Property C15: what the usage text must say, as predicates over the text itself (a sequence of     *)
(* lines, each a byte string) and the declaration it was produced from.  The property fixes content, *)
(* order and width, not the exact wrapping, so the specification states exactly that and nothing     *)
(* more: any layout that keeps every item, in order, within 80 columns is accepted.                  *)
(*                                                                                                    *)
(* Declaration: app (bytes), dgroup (name of the default group), groups (named groups in creation    *)
(* order: [name, desc]), opts (in declaration order): [kind, grp (0 = default group, k = k-th named   *)
(* group), name, letter (0 = none), rev, desc, meta, env (<<>> = unbound), dflt (<<>> | <<bytes>>)]    *)
EXTENDS Naturals, Sequences, FiniteSets, Bytes

SP == 32
Blank(line) == \A i \in 1..Len(line) : line[i] = SP
Words(line) == SelectSeq(SplitOn(line, <<SP>>), LAMBDA w : w # <<>>)
Contains(s, n) == Find(s, n) # 0
Indent(line) == LET idx == { i \in 1..Len(line) : line[i] # SP } IN IF idx = {} THEN Len(line) ELSE MinOf(idx) - 1

DD == <<45, 45>>
LongSpelling(o) == IF o.kind = "toggle" /\ o.rev THEN DD \o <<91, 110, 111, 45, 93>> \o o.name ELSE DD \o o.name   \* --[no-]name
ShortWord(o) == <<45, o.letter, 44>>                                                                         \* -s,

(* ---- sections of the text ---------------------------------------------------------------------------- *)
BlankIdx(lines) == { i \in 1..Len(lines) : Blank(lines[i]) }
SynEnd(lines) == IF BlankIdx(lines) = {} THEN Len(lines) ELSE MinOf(BlankIdx(lines)) - 1
Synopsis(lines) == SubSeq(lines, 1, SynEnd(lines))

IsEntry(line) == Len(line) >= 3 /\ line[1] = SP /\ line[2] = SP /\ line[3] = 45
EntryIdx(lines) == { i \in 1..Len(lines) : IsEntry(lines[i]) }
(* the block of an entry: its line and the continuation lines up to the next entry / blank line *)
BlockEnd(lines, i) ==
  LET stop == { j \in (i + 1)..Len(lines) : IsEntry(lines[j]) \/ Blank(lines[j]) }
  IN IF stop = {} THEN Len(lines) ELSE MinOf(stop) - 1
RECURSIVE WordsOf(_, _, _)
WordsOf(lines, i, j) == IF i > j THEN <<>> ELSE Words(lines[i]) \o WordsOf(lines, i + 1, j)
BlockWords(lines, i) == WordsOf(lines, i, BlockEnd(lines, i))

(* which option an entry line is about: the one whose long spelling is the first or second word *)
EntryOption(d, line) ==
  LET w == Words(line)
      m == { k \in 1..Len(d.opts) : \/ (Len(w) >= 1 /\ w[1] = LongSpelling(d.opts[k]))
                                     \/ (Len(w) >= 2 /\ w[2] = LongSpelling(d.opts[k])) }
  IN IF m = {} THEN 0 ELSE MinOf(m)

RECURSIVE EntrySeq(_, _, _)
EntrySeq(d, lines, i) ==
  IF i > Len(lines) THEN <<>>
  ELSE (IF IsEntry(lines[i]) THEN <<EntryOption(d, lines[i])>> ELSE <<>>) \o EntrySeq(d, lines, i + 1)

(* expected order: default group first, then the named groups in creation order; inside a group declaration order *)
RECURSIVE OfGroup(_, _, _)
OfGroup(d, g, k) == IF k > Len(d.opts) THEN <<>> ELSE (IF d.opts[k].grp = g THEN <<k>> ELSE <<>>) \o OfGroup(d, g, k + 1)
RECURSIVE GroupsFrom(_, _)
GroupsFrom(d, g) == IF g > Len(d.groups) THEN <<>> ELSE OfGroup(d, g, 1) \o GroupsFrom(d, g + 1)
ExpectedOrder(d) == GroupsFrom(d, 0)

IsSubseqAt(ws, sub, p) == p + Len(sub) - 1 <= Len(ws) /\ SubSeq(ws, p, p + Len(sub) - 1) = sub
HasRun(ws, sub) == sub = <<>> \/ \E p \in 1..Len(ws) : IsSubseqAt(ws, sub, p)

(* ---- the property --------------------------------------------------------------------------------------- *)
(* (a) the synopsis starts with "usage: <app>" and mentions every declared option *)
BundleWords(syn) == { w \in UNION { { Words(syn[i])[k] : k \in 1..Len(Words(syn[i])) } : i \in 1..Len(syn) } :
                        Len(w) >= 3 /\ w[1] = 91 /\ w[2] = 45 /\ w[3] # 45 }          \* "[-abc]"
InSynopsis(d, syn, o) ==
  /\ (o.kind = "toggle" /\ o.letter # 0) => \E w \in BundleWords(syn) : \E i \in 3..Len(w) : w[i] = o.letter
  /\ (o.kind # "toggle" \/ o.letter = 0 \/ o.rev) => \E i \in 1..Len(syn) : Contains(syn[i], LongSpelling(o))
SynopsisComplete(d, lines) ==
  LET syn == Synopsis(lines) IN
    /\ Len(syn) >= 1 /\ StartsWith(syn[1], <<117, 115, 97, 103, 101, 58, 32>> \o d.app)      \* "usage: "
    /\ \A k \in 1..Len(d.opts) : InSynopsis(d, syn, d.opts[k])

(* (b) every option exactly once in the option section, grouped in creation order, in declaration order *)
ListedOnceInOrder(d, lines) == EntrySeq(d, lines, 1) = ExpectedOrder(d)

(* group headings: a non-empty group is introduced by "<name>:" before its first entry *)
GroupHeaders(d, lines) ==
  \A g \in 0..Len(d.groups) :
    OfGroup(d, g, 1) # <<>> =>
      LET gname == IF g = 0 THEN d.dgroup ELSE d.groups[g].name
          first == OfGroup(d, g, 1)[1]
          at == { i \in EntryIdx(lines) : EntryOption(d, lines[i]) = first }
      IN at # {} /\ \E h \in 1..(MinOf(at) - 1) : lines[h] = gname \o <<58>>
                        /\ \A e \in EntryIdx(lines) : e > h /\ e < MinOf(at) => FALSE

(* per entry: spellings, placeholder, description words in order, environment hint, default *)
EntryOK(d, lines, i) ==
  LET o == d.opts[EntryOption(d, lines[i])]
      w == BlockWords(lines, i)
      h == (IF o.letter # 0 THEN <<ShortWord(o)>> ELSE <<>>) \o <<LongSpelling(o)>> \o (IF o.kind # "toggle" THEN <<o.meta>> ELSE <<>>)
  IN /\ IsSubseqAt(w, h, 1)                                                     \* "-s, --name METAVAR"
     /\ HasRun(SubSeq(w, Len(h) + 1, Len(w)), Words(o.desc))                     \* no word of the description lost or reordered
     /\ o.env # <<>> => \E k \in (Len(h) + 1)..Len(w) : Contains(w[k], o.env)
     /\ (o.kind = "opt" /\ o.dflt # <<>>) => HasRun(SubSeq(w, Len(h) + 1, Len(w)), Words(<<40>> \o <<100,101,102,97,117,108,116,58>> \o <<SP>> \o o.dflt[1] \o <<41>>))
EntriesOK(d, lines) == \A i \in EntryIdx(lines) : EntryOption(d, lines[i]) # 0 /\ EntryOK(d, lines, i)

(* (e) 80 columns, unless an unbreakable word forces it -- applies to the wrapped parts: synopsis and entries. *)
(* Read leniently: a line may be longer if it holds a unit that fits in no line of its column: a blank-free    *)
(* run, or (synopsis) a spelling together with its value placeholder "--name <META>", longer than the column.  *)
Wrapped(lines) == (1..SynEnd(lines)) \cup UNION { i..BlockEnd(lines, i) : i \in EntryIdx(lines) }
Excused(line, column) ==
  LET w == Words(line) IN
    \E k \in 1..Len(w) :
      \/ Len(w[k]) > column
      \/ k < Len(w) /\ w[k + 1][1] = 60 /\ Len(w[k]) + 1 + Len(w[k + 1]) > column
WidthOK(d, lines) ==
  /\ \A i \in 1..SynEnd(lines) : Len(lines[i]) <= 80 \/ Excused(lines[i], 80 - (8 + Len(d.app)))
  /\ \A i \in UNION { e..BlockEnd(lines, e) : e \in EntryIdx(lines) } : Len(lines[i]) <= 80 \/ Excused(lines[i], 40)

UsageOK(d, lines) ==
  /\ SynopsisComplete(d, lines) /\ ListedOnceInOrder(d, lines) /\ GroupHeaders(d, lines)
  /\ EntriesOK(d, lines) /\ WidthOK(d, lines)
=============================================================================
