SPECIFICATION TSpec
INVARIANT Good
CONSTRAINT Track
POSTCONDITION Report
CHECK_DEADLOCK FALSE
