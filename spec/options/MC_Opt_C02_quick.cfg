SPECIFICATION RSpec
CONSTANTS
  DeclSet <- MCDeclSet
  EnvSet <- MCEnvSet
  ArgvSet <- MCArgvSet
  MaxParses = 1
  EnvChanges = FALSE
  LetterAdds <- MCLetterAdds
  Vals <- MCVals
  MaxMulti = 2
  MaxPos = 2
  MaxCount = 2
  MaxItems = 3
INVARIANTS TypeOK RoundTrip RAccounted RMeaning REmit
CHECK_DEADLOCK FALSE
