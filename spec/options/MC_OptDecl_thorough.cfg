SPECIFICATION Spec
CONSTANTS
  Names = {"a", "b"}
  Groups = {"", "g1", "g2"}
  Kinds = {"opt", "multi", "toggle"}
  LetterArgs = {"x", "y", "xy", ""}
  EnvArgs = {"E1"}
  MetaArgs = {""}
  MaxObjs = 2
INVARIANTS NamesUnique LettersOneChar Unambiguous
PROPERTIES Monotone MoveChangesNothing
ACTION_CONSTRAINT EmitEdge
VIEW View
CHECK_DEADLOCK FALSE
