SPECIFICATION Spec
CONSTANTS
  Names = {"a", "b", "c"}
  Groups = {"", "g1"}
  Kinds = {"opt", "multi", "toggle"}
  LetterArgs = {"x", "y", "xy", ""}
  EnvArgs = {}
  MetaArgs = {"M"}
  MaxObjs = 3
INVARIANTS NamesUnique LettersOneChar Unambiguous
PROPERTIES Monotone MoveChangesNothing
ACTION_CONSTRAINT EmitEdge
VIEW View
CHECK_DEADLOCK FALSE
