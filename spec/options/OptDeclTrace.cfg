SPECIFICATION TSpec
CONSTANTS
  Names = {"a", "b", "c", "dd", "no"}
  Groups = {"", "g1", "g2"}
  Kinds = {"opt", "multi", "toggle"}
  LetterArgs = {"x", "y", "z", "xy", ""}
  EnvArgs = {"E1", "E2", ""}
  MetaArgs = {"M", "N", ""}
  MaxObjs = 10
INVARIANTS NamesUnique LettersOneChar Unambiguous
CONSTRAINT Track
POSTCONDITION Report
CHECK_DEADLOCK FALSE
