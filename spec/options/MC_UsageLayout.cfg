SPECIFICATION Spec
CONSTANTS
  Lens = {1, 3, 5, 9, 10, 11}
  MaxWords = 5
  LeftPad = 6
  MaxWidth = 16
  Headers = {2, 6, 7, 12}
  Strict = TRUE
INVARIANTS NothingLost WidthRule
PROPERTY Terminates
CHECK_DEADLOCK FALSE
