SPECIFICATION Spec
CONSTANTS
  DeclSet <- MCDeclSet
  EnvSet <- MCEnvSet
  ArgvSet <- MCArgvSet
  MaxParses = 1
  EnvChanges = FALSE
  LetterAdds <- MCLetterAdds
INVARIANTS TypeOK
PROPERTIES Terminates
CHECK_DEADLOCK FALSE
