SPECIFICATION Spec
CONSTANTS
  DeclSet <- MCDeclSet
  EnvSet <- MCEnvSet
  ArgvSet <- MCArgvSet
  MaxParses = 1
INVARIANTS TypeOK
PROPERTIES Terminates
CHECK_DEADLOCK FALSE
