SPECIFICATION Spec
CONSTANTS
  DeclSet <- MCDeclSet
  EnvSet <- MCEnvSet
  ArgvSet <- MCArgvSet
  MaxParses = 1
  EnvChanges = FALSE
INVARIANTS TypeOK
PROPERTIES Terminates
CHECK_DEADLOCK FALSE
