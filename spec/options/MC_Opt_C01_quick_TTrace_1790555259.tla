---- MODULE MC_Opt_C01_quick_TTrace_1790555259 ----
EXTENDS Sequences, TLCExt, Toolbox, Naturals, TLC, MC_Opt_C01_quick

_expression ==
    LET MC_Opt_C01_quick_TEExpression == INSTANCE MC_Opt_C01_quick_TEExpression
    IN MC_Opt_C01_quick_TEExpression!expression
----

_trace ==
    LET MC_Opt_C01_quick_TETrace == INSTANCE MC_Opt_C01_quick_TETrace
    IN MC_Opt_C01_quick_TETrace!trace
----

_inv ==
    ~(
        TLCGet("level") = Len(_TETrace)
        /\
        phase = ("scan")
        /\
        cursor = (1)
        /\
        st = (<<[val |-> <<>>, list |-> <<>>, count |-> 0, neg |-> FALSE, prov |-> FALSE], [val |-> <<>>, list |-> <<>>, count |-> 0, neg |-> FALSE, prov |-> FALSE], [val |-> <<>>, list |-> <<>>, count |-> 0, neg |-> FALSE, prov |-> FALSE], [val |-> <<>>, list |-> <<>>, count |-> 0, neg |-> FALSE, prov |-> FALSE], [val |-> <<>>, list |-> <<>>, count |-> 0, neg |-> FALSE, prov |-> FALSE]>>)
        /\
        reason = ("")
        /\
        cfg = ([id |-> 1, decl |-> <<[kind |-> "toggle", name |-> <<118, 101, 114, 98, 111, 115, 101>>, letter |-> 118, rev |-> TRUE, dflt |-> <<0>>, env |-> 0, optional |-> FALSE], [kind |-> "toggle", name |-> <<113, 117, 105, 101, 116>>, letter |-> 113, rev |-> FALSE, dflt |-> <<0>>, env |-> 0, optional |-> FALSE], [kind |-> "toggle", name |-> <<100, 114, 121>>, letter |-> 0, rev |-> FALSE, dflt |-> <<0>>, env |-> 0, optional |-> FALSE], [kind |-> "opt", name |-> <<111, 117, 116>>, letter |-> 111, rev |-> FALSE, dflt |-> <<>>, env |-> 0, optional |-> TRUE], [kind |-> "multi", name |-> <<109, 117, 108, 116, 105>>, letter |-> 109, rev |-> FALSE, dflt |-> <<>>, env |-> 0, optional |-> TRUE]>>, allowed |-> -1, greedy |-> FALSE])
        /\
        chk = (1)
        /\
        env = (<<>>)
        /\
        argv = (<<<<>>>>)
        /\
        positionals = (<<>>)
        /\
        hist = (<<>>)
        /\
        byDD = (FALSE)
        /\
        onlyPos = (FALSE)
        /\
        acct = (<<>>)
    )
----

_init ==
    /\ phase = _TETrace[1].phase
    /\ byDD = _TETrace[1].byDD
    /\ chk = _TETrace[1].chk
    /\ onlyPos = _TETrace[1].onlyPos
    /\ hist = _TETrace[1].hist
    /\ st = _TETrace[1].st
    /\ cursor = _TETrace[1].cursor
    /\ env = _TETrace[1].env
    /\ argv = _TETrace[1].argv
    /\ positionals = _TETrace[1].positionals
    /\ acct = _TETrace[1].acct
    /\ reason = _TETrace[1].reason
    /\ cfg = _TETrace[1].cfg
----

_next ==
    /\ \E i,j \in DOMAIN _TETrace:
        /\ \/ /\ j = i + 1
              /\ i = TLCGet("level")
        /\ phase  = _TETrace[i].phase
        /\ phase' = _TETrace[j].phase
        /\ byDD  = _TETrace[i].byDD
        /\ byDD' = _TETrace[j].byDD
        /\ chk  = _TETrace[i].chk
        /\ chk' = _TETrace[j].chk
        /\ onlyPos  = _TETrace[i].onlyPos
        /\ onlyPos' = _TETrace[j].onlyPos
        /\ hist  = _TETrace[i].hist
        /\ hist' = _TETrace[j].hist
        /\ st  = _TETrace[i].st
        /\ st' = _TETrace[j].st
        /\ cursor  = _TETrace[i].cursor
        /\ cursor' = _TETrace[j].cursor
        /\ env  = _TETrace[i].env
        /\ env' = _TETrace[j].env
        /\ argv  = _TETrace[i].argv
        /\ argv' = _TETrace[j].argv
        /\ positionals  = _TETrace[i].positionals
        /\ positionals' = _TETrace[j].positionals
        /\ acct  = _TETrace[i].acct
        /\ acct' = _TETrace[j].acct
        /\ reason  = _TETrace[i].reason
        /\ reason' = _TETrace[j].reason
        /\ cfg  = _TETrace[i].cfg
        /\ cfg' = _TETrace[j].cfg

\* Uncomment the ASSUME below to write the states of the error trace
\* to the given file in Json format. Note that you can pass any tuple
\* to `JsonSerialize`. For example, a sub-sequence of _TETrace.
    \* ASSUME
    \*     LET J == INSTANCE Json
    \*         IN J!JsonSerialize("MC_Opt_C01_quick_TTrace_1790555259.json", _TETrace)

=============================================================================

 Note that you can extract this module `MC_Opt_C01_quick_TEExpression`
  to a dedicated file to reuse `expression` (the module in the 
  dedicated `MC_Opt_C01_quick_TEExpression.tla` file takes precedence 
  over the module `MC_Opt_C01_quick_TEExpression` below).

---- MODULE MC_Opt_C01_quick_TEExpression ----
EXTENDS Sequences, TLCExt, Toolbox, Naturals, TLC, MC_Opt_C01_quick

expression == 
    [
        \* To hide variables of the `MC_Opt_C01_quick` spec from the error trace,
        \* remove the variables below.  The trace will be written in the order
        \* of the fields of this record.
        phase |-> phase
        ,byDD |-> byDD
        ,chk |-> chk
        ,onlyPos |-> onlyPos
        ,hist |-> hist
        ,st |-> st
        ,cursor |-> cursor
        ,env |-> env
        ,argv |-> argv
        ,positionals |-> positionals
        ,acct |-> acct
        ,reason |-> reason
        ,cfg |-> cfg
        
        \* Put additional constant-, state-, and action-level expressions here:
        \* ,_stateNumber |-> _TEPosition
        \* ,_phaseUnchanged |-> phase = phase'
        
        \* Format the `phase` variable as Json value.
        \* ,_phaseJson |->
        \*     LET J == INSTANCE Json
        \*     IN J!ToJson(phase)
        
        \* Lastly, you may build expressions over arbitrary sets of states by
        \* leveraging the _TETrace operator.  For example, this is how to
        \* count the number of times a spec variable changed up to the current
        \* state in the trace.
        \* ,_phaseModCount |->
        \*     LET F[s \in DOMAIN _TETrace] ==
        \*         IF s = 1 THEN 0
        \*         ELSE IF _TETrace[s].phase # _TETrace[s-1].phase
        \*             THEN 1 + F[s-1] ELSE F[s-1]
        \*     IN F[_TEPosition - 1]
    ]

=============================================================================



Parsing and semantic processing can take forever if the trace below is long.
 In this case, it is advised to uncomment the module below to deserialize the
 trace from a generated binary file.

\*
\*---- MODULE MC_Opt_C01_quick_TETrace ----
\*EXTENDS IOUtils, TLC, MC_Opt_C01_quick
\*
\*trace == IODeserialize("MC_Opt_C01_quick_TTrace_1790555259.bin", TRUE)
\*
\*=============================================================================
\*

---- MODULE MC_Opt_C01_quick_TETrace ----
EXTENDS TLC, MC_Opt_C01_quick

trace == 
    <<
    ([phase |-> "idle",cursor |-> 1,st |-> <<[val |-> <<>>, list |-> <<>>, count |-> 0, neg |-> FALSE, prov |-> FALSE], [val |-> <<>>, list |-> <<>>, count |-> 0, neg |-> FALSE, prov |-> FALSE], [val |-> <<>>, list |-> <<>>, count |-> 0, neg |-> FALSE, prov |-> FALSE], [val |-> <<>>, list |-> <<>>, count |-> 0, neg |-> FALSE, prov |-> FALSE], [val |-> <<>>, list |-> <<>>, count |-> 0, neg |-> FALSE, prov |-> FALSE]>>,reason |-> "",cfg |-> [id |-> 1, decl |-> <<[kind |-> "toggle", name |-> <<118, 101, 114, 98, 111, 115, 101>>, letter |-> 118, rev |-> TRUE, dflt |-> <<0>>, env |-> 0, optional |-> FALSE], [kind |-> "toggle", name |-> <<113, 117, 105, 101, 116>>, letter |-> 113, rev |-> FALSE, dflt |-> <<0>>, env |-> 0, optional |-> FALSE], [kind |-> "toggle", name |-> <<100, 114, 121>>, letter |-> 0, rev |-> FALSE, dflt |-> <<0>>, env |-> 0, optional |-> FALSE], [kind |-> "opt", name |-> <<111, 117, 116>>, letter |-> 111, rev |-> FALSE, dflt |-> <<>>, env |-> 0, optional |-> TRUE], [kind |-> "multi", name |-> <<109, 117, 108, 116, 105>>, letter |-> 109, rev |-> FALSE, dflt |-> <<>>, env |-> 0, optional |-> TRUE]>>, allowed |-> -1, greedy |-> FALSE],chk |-> 1,env |-> <<>>,argv |-> <<>>,positionals |-> <<>>,hist |-> <<>>,byDD |-> FALSE,onlyPos |-> FALSE,acct |-> <<>>]),
    ([phase |-> "scan",cursor |-> 1,st |-> <<[val |-> <<>>, list |-> <<>>, count |-> 0, neg |-> FALSE, prov |-> FALSE], [val |-> <<>>, list |-> <<>>, count |-> 0, neg |-> FALSE, prov |-> FALSE], [val |-> <<>>, list |-> <<>>, count |-> 0, neg |-> FALSE, prov |-> FALSE], [val |-> <<>>, list |-> <<>>, count |-> 0, neg |-> FALSE, prov |-> FALSE], [val |-> <<>>, list |-> <<>>, count |-> 0, neg |-> FALSE, prov |-> FALSE]>>,reason |-> "",cfg |-> [id |-> 1, decl |-> <<[kind |-> "toggle", name |-> <<118, 101, 114, 98, 111, 115, 101>>, letter |-> 118, rev |-> TRUE, dflt |-> <<0>>, env |-> 0, optional |-> FALSE], [kind |-> "toggle", name |-> <<113, 117, 105, 101, 116>>, letter |-> 113, rev |-> FALSE, dflt |-> <<0>>, env |-> 0, optional |-> FALSE], [kind |-> "toggle", name |-> <<100, 114, 121>>, letter |-> 0, rev |-> FALSE, dflt |-> <<0>>, env |-> 0, optional |-> FALSE], [kind |-> "opt", name |-> <<111, 117, 116>>, letter |-> 111, rev |-> FALSE, dflt |-> <<>>, env |-> 0, optional |-> TRUE], [kind |-> "multi", name |-> <<109, 117, 108, 116, 105>>, letter |-> 109, rev |-> FALSE, dflt |-> <<>>, env |-> 0, optional |-> TRUE]>>, allowed |-> -1, greedy |-> FALSE],chk |-> 1,env |-> <<>>,argv |-> <<<<>>>>,positionals |-> <<>>,hist |-> <<>>,byDD |-> FALSE,onlyPos |-> FALSE,acct |-> <<>>])
    >>
----


=============================================================================

---- CONFIG MC_Opt_C01_quick_TTrace_1790555259 ----
CONSTANTS
    DeclSet <- MCDeclSet
    EnvSet <- MCEnvSet
    ArgvSet <- MCArgvSet
    MaxParses = 1

INVARIANT
    _inv

CHECK_DEADLOCK
    \* CHECK_DEADLOCK off because of PROPERTY or INVARIANT above.
    FALSE

INIT
    _init

NEXT
    _next

CONSTANT
    _TETrace <- _trace

ALIAS
    _expression
=============================================================================
\* Generated on Mon Sep 28 00:28:18 UTC 2026