------------------------------- MODULE Bytes -------------------------------
(* Byte strings are sequences of naturals 0..255.  All operators are written so that TLC        *)
(* evaluates them in time linear (or length x pattern) in the argument: index *sets* plus Min,   *)
(* no nested quantifiers, every sub-result bound once by LET.                                     *)
EXTENDS Naturals, Sequences, FiniteSets

MinOf(S) == CHOOSE x \in S : \A y \in S : x <= y
MaxOf(S) == CHOOSE x \in S : \A y \in S : y <= x

(* all sequences over A of length 0..n *)
StrUpTo(A, n) == UNION { [1..k -> A] : k \in 0..n }
StrFromTo(A, m, n) == UNION { [1..k -> A] : k \in m..n }

StartsWith(s, p) == Len(p) <= Len(s) /\ SubSeq(s, 1, Len(p)) = p

(* first index >= from at which pattern n occurs in s; 0 if none.  n = <<>> occurs at `from`      *)
(* whenever from <= Len(s)+1 (the convention of std::string::find).                               *)
FindFrom(s, n, from) ==
  LET ln  == Len(n)
      idx == { i \in from..(Len(s) - ln + 1) : SubSeq(s, i, i + ln - 1) = n }
  IN IF idx = {} THEN 0 ELSE MinOf(idx)

Find(s, n) == FindFrom(s, n, 1)

(* first index of byte c, 0 if absent *)
IndexOf(s, c) ==
  LET idx == { i \in 1..Len(s) : s[i] = c } IN IF idx = {} THEN 0 ELSE MinOf(idx)

Tail0(s, from) == SubSeq(s, from, Len(s))   \* suffix starting at index from

RECURSIVE Concat(_)
Concat(ss) == IF ss = <<>> THEN <<>> ELSE Head(ss) \o Concat(Tail(ss))

(* pieces glued with an infix between neighbours *)
RECURSIVE Glue(_, _)
Glue(ss, infix) ==
  IF ss = <<>> THEN <<>>
  ELSE IF Len(ss) = 1 THEN ss[1] ELSE ss[1] \o infix \o Glue(Tail(ss), infix)

(* number of left-to-right non-overlapping occurrences of a non-empty pattern *)
RECURSIVE CountHits(_, _)
CountHits(s, n) ==
  LET p == Find(s, n) IN IF p = 0 THEN 0 ELSE 1 + CountHits(Tail0(s, p + Len(n)), n)

(* pieces of s between the left-to-right non-overlapping occurrences of the non-empty pattern n *)
RECURSIVE SplitOn(_, _)
SplitOn(s, n) ==
  LET p == Find(s, n)
  IN IF p = 0 THEN <<s>> ELSE <<SubSeq(s, 1, p - 1)>> \o SplitOn(Tail0(s, p + Len(n)), n)

(* number of indices at which byte c occurs *)
CountByte(s, c) == Cardinality({ i \in 1..Len(s) : s[i] = c })

IsDigit(c) == c >= 48 /\ c <= 57
AllDigits(s) == s # <<>> /\ \A i \in 1..Len(s) : IsDigit(s[i])
RECURSIVE DecAcc(_, _)
DecAcc(s, acc) == IF s = <<>> THEN acc ELSE DecAcc(Tail(s), acc * 10 + (Head(s) - 48))
Dec(s) == DecAcc(s, 0)

Reverse(s) == [ i \in 1..Len(s) |-> s[Len(s) + 1 - i] ]
(* decimal text of an integer *)
RECURSIVE NatText(_)
NatText(n) == IF n < 10 THEN <<48 + n>> ELSE NatText(n \div 10) \o <<48 + (n % 10)>>
IntText(n) == IF n < 0 THEN <<45>> \o NatText(0 - n) ELSE NatText(n)
HexDigit(d) == IF d < 10 THEN 48 + d ELSE 87 + d
RECURSIVE HexText(_)
HexText(n) == IF n < 16 THEN <<HexDigit(n)>> ELSE HexText(n \div 16) \o <<HexDigit(n % 16)>>

=========================================================================
