------------------------------ MODULE TraceIO ------------------------------
(* Reading a recorded NDJSON trace (path in the environment variable TRACE) and the cursor idiom. *)
(* A trace file is a concatenation of executions, each introduced by a {"e":"Reset"} line.        *)
(* Acceptance is decided by the caller from the line "MATCHED <n>" printed by the postcondition:  *)
(* n = number of trace lines consumed on the longest matched prefix.                              *)
EXTENDS Json, IOUtils, TLC, Sequences, Naturals

TraceLog == ndJsonDeserialize(IOEnv.TRACE)
TraceLen == Len(TraceLog)

Max2(a, b) == IF a >= b THEN a ELSE b

(* state constraint: remembers the furthest cursor position (needs -workers 1) *)
TrackCursor(l) == TLCSet(1, Max2(TLCGet(1), l - 1))

ASSUME TLCSet(1, 0)

ReportMatched == PrintT("MATCHED " \o ToString(TLCGet(1)))
=============================================================================
