"""C17 (string functions) and C08 (format): Strings.tla / Format.tla <-> text_driver."""
import json
import os
import random

import vcommon as vc
from vcommon import b


def _build():
    # the full driver also calls join over non-random-access iterators and with temporaries; if those call forms do not
    # compile against this tree the driver is built without them (noted, no verdict from the missing forms)
    r = vc.build_driver("text_driver", ["text_driver.cpp"], allow_fail=True)
    if r[0] is not None:
        return r[0]
    vc.log("text_driver: optional call forms do not compile against this tree, building without them: " + " ".join(l for l in r[1].splitlines() if "error" in l)[:300])
    return vc.build_driver("text_driver_min", ["text_driver.cpp"], flags=["-DVERIF_MINIMAL"])


# ------------------------------------------------------------------------------------------------
# C17


def c17_compare(chk, case, o):
    op = case["op"]
    exp = case["outcome"]
    wit = dict(op=op, a1=case["a1"], a2=case["a2"], a3=case.get("a3", []))
    got = o.get("outcome")
    if got == "skipped":
        return
    if got in ("timeout", "crash"):
        where = {"split": "Split", "replace": "ReplaceFree" if case["a2"] == [] else "Replace",
                 "join": "Join", "joinitems": "Join", "starts": "StartsWith"}[op]
        chk.diverge(where, got, wit, "spec: call returns (%s); implementation: %s (%s)" % (exp, got, o.get("why")))
        return
    if exp == "free":
        return
    if exp == "raise":
        if got != "raise" or o.get("cls") != "nitro_exception":
            chk.diverge("SplitRaise", got if got != "raise" else o.get("cls"), wit,
                        "spec: empty needle raises the library exception; implementation: %s" % got)
        return
    where = {"split": "Split", "replace": "Replace", "join": "Join", "joinitems": "Join", "starts": "StartsWith"}[op]
    if got != "ok":
        chk.diverge(where, got, wit, "spec: ok %s; implementation: %s %s" % (case["out"], got, o.get("cls")))
        return
    outs = [("out", o["out"])]
    if op == "join":
        outs.append(("out_iter", o["out_iter"]))
        if "out_default" in o:
            outs.append(("out_default", o["out_default"]))
        if "out_list" in o:
            outs.append(("out_list (join over std::list iterators)", o["out_list"]))
    for k, v in enumerate(o.get("alts", [])):
        outs.append(("the same call with temporary / const arguments, variant %d" % (k + 1), v))
    for name, v in outs:
        if v != case["out"]:
            chk.diverge(where, "wrong-result", wit,
                        "%s(%r, %r, %r): spec %r, implementation (%s) %r" % (
                            op, _s(case["a1"]), _s(case["a2"]), _s(case.get("a3", [])), _s(case["out"]), name, _s(v)))
            return


def _s(x):
    if isinstance(x, list) and x and isinstance(x[0], list) or x == [[]]:
        return [_s(e) for e in x]
    if isinstance(x, list):
        return vc.ub(x)
    return x


def c17_random(rng, n):
    alpha = [b"a", b"b", b" ", b"ab", b",", b"\t", b"\xc3\xa4", b"aa", b"x", b"\n"]
    def rs(maxlen, alph=alpha):
        k = rng.choice([0, 1, 2, 3, 5, 8, 13, 40]) if maxlen > 8 else rng.randint(0, maxlen)
        if maxlen >= 40 and rng.random() < 0.02:
            maxlen = k = rng.choice([127, 128, 255, 256, 257, 300, 1000])     # lengths and positions kept in narrow integers
        return b"".join(rng.choice(alph) for _ in range(min(k, maxlen)))
    cases = []
    for _ in range(n):
        op = rng.choice(["split", "replace", "replace", "join", "join", "starts", "joinitems"])
        small = alpha[:4] if rng.random() < 0.7 else alpha
        if op == "split":
            hay = rs(40, small)
            nd = rs(3, small) if rng.random() < 0.9 else b""
            if nd and rng.random() < 0.3 and len(hay) > 2:
                i = rng.randrange(len(hay)); nd = hay[i:i + rng.randint(1, 3)]
            cases.append(dict(op=op, a1=b(hay), a2=b(nd), a3=[]))
        elif op == "replace":
            s = rs(40, small)
            pat = rs(3, small) if rng.random() < 0.93 else b""
            if pat and rng.random() < 0.3 and len(s) > 2:
                i = rng.randrange(len(s)); pat = s[i:i + rng.randint(1, 3)]
            rep = rs(4, small)
            if rng.random() < 0.3:
                rep = pat + rep if rng.random() < 0.5 else rep + pat + rep   # pattern contained in replacement
            cases.append(dict(op=op, a1=b(s), a2=b(pat), a3=b(rep)))
        elif op == "joinitems":
            items = []
            for _ in range(rng.randint(0, 6)):
                t = rng.choice("ssiihj")
                if t == "s":
                    items.append(dict(t="s", v=b(rs(4, small)) if rng.random() < 0.7 else []))
                elif t == "i":
                    items.append(dict(t="i", v=rng.choice([0, 7, 10, 11, 255, 300, -12, 65535])))
                elif t == "h":
                    items.append(dict(t="h", v=rng.choice([0, 9, 10, 255, 4096])))
                else:
                    items.append(dict(t="j", v=[b(rs(3, small)) if rng.random() < 0.8 else [] for _ in range(rng.randint(0, 3))]))
            cases.append(dict(op=op, a1=items, a2=b(rng.choice([b" ", b",", b", ", b"", b";"])), a3=[]))
        elif op == "join":
            k = rng.randint(0, 6)
            el = [b(rs(4, small)) if rng.random() < 0.7 else [] for _ in range(k)]
            infix = rng.choice([b" ", b" ", b",", b", ", b"", b"--", b"a"])
            cases.append(dict(op=op, a1=el, a2=b(infix), a3=[]))
        else:
            f = rs(12, small)
            if rng.random() < 0.5:
                bg = f[:rng.randint(0, len(f))] + (rng.choice(small) if rng.random() < 0.3 else b"")
            else:
                bg = rs(4, small)
            cases.append(dict(op=op, a1=b(f), a2=b(bg), a3=[]))
    return cases


def run_c17(chk, replay):
    exe = _build()
    tier = chk.tier
    if replay:
        return _replay(chk, exe, replay, "C17")
    # 1. the design model
    cfg = "text/MC_Strings_%s.cfg" % tier
    r = vc.run_tlc("text/MC_Strings", cfg, coverage=True, timeout=3000, xmx="16g")
    chk.add_tlc("MC_Strings/" + tier, r)
    if not r["ok"]:
        chk.model_violation("MC_Strings", r)
        return
    chk.exhaustive = True
    chk.bounds["model"] = ("strings over {a,b,space} up to length %d; separators/patterns up to 3; element lists up to %d"
                           % ((5, 3) if tier == "quick" else (7, 4)))
    cases = [json.loads(x) for x in r["lines"]["CASE"]]
    if len(cases) < 1000:
        raise vc.Infra("Strings model exported only %d cases" % len(cases))
    # 2. spec -> code
    obs = vc.run_cases(exe, cases, chk.out, "replay", per_case_timeout=5)
    for c, o in zip(cases, obs):
        c17_compare(chk, c, o)
    chk.replayed += len(cases)
    for c in cases[:: max(1, len(cases) // 3)][:3]:
        chk.sample(dict(kind="spec->code case", op=c["op"], a1=_s(c["a1"]), a2=_s(c["a2"]), a3=_s(c["a3"]),
                        expected=c["outcome"], out=_s(c["out"])))
    # 3. code -> spec
    rng = random.Random(chk.seed)
    n = 4000 if tier == "quick" else 60000
    rc = c17_random(rng, n)
    robs = vc.run_cases(exe, rc, chk.out, "record", per_case_timeout=5)
    execs = []
    cur = []
    for c, o in zip(rc, robs):
        ev = dict(e=c["op"], a1=c["a1"], a2=c["a2"], a3=c["a3"], outcome=o.get("outcome"),
                  out=o.get("out", []), out_iter=o.get("out_iter", []), alts=o.get("alts", []))
        cur.append((c, o, ev))
        if len(cur) == 25:
            execs.append(cur)
            cur = []
    if cur:
        execs.append(cur)
    rej, st = vc.validate_trace("text/StringsTrace", "text/StringsTrace.cfg", [[e[2] for e in ex] for ex in execs],
                                chk.out, "trace")
    chk.states += st["states"]
    chk.transitions += st["states"]
    chk.recorded += len(execs)
    for k, matched, path, why in rej:
        c, o, ev = execs[k][min(matched, len(execs[k]) - 1)]
        c2 = dict(c)
        # classify with the same comparison the replay uses (expected outcome from the spec's rules)
        c2["outcome"] = "raise" if (c["op"] == "split" and c["a2"] == []) else ("free" if c["op"] == "replace" and c["a2"] == [] else "ok")
        c2["out"] = "(see trace)"
        before = len(chk.divergences)
        if o.get("outcome") in ("timeout", "crash") or c2["outcome"] != "ok":
            c17_compare(chk, c2, o)
        if len(chk.divergences) == before:
            where = {"split": "Split", "replace": "Replace", "join": "Join", "joinitems": "Join", "starts": "StartsWith"}[c["op"]]
            chk.diverge(where, "wrong-result" if o.get("outcome") == "ok" else str(o.get("outcome")),
                        dict(op=c["op"], a1=c["a1"], a2=c["a2"], a3=c["a3"]),
                        "recorded call rejected by StringsTrace at event %d (%s): %s(%r,%r,%r) -> %r" % (
                            matched, why, c["op"], (c["a1"] if c["op"] == "joinitems" else _s(c["a1"])), _s(c["a2"]), _s(c["a3"]), _s(o.get("out"))), artefact=path)
    chk.sample(dict(kind="code->spec event", event=execs[0][0][2]))
    chk.assumptions += ["libstdc++ std::string semantics", "sanitizer build behaves like a plain build apart from detection",
                        "a call that does not return within 5 s is a hang"]


def _replay(chk, exe, path, pid):
    d = json.load(open(path))
    w = d["witness"]
    case = dict(w)
    obs = vc.run_cases(exe, [case], chk.out, "replay1")
    print("replayed witness:", json.dumps(case), "->", json.dumps(obs[0]))
    chk.replayed += 1
    chk.states = chk.transitions = 1
    chk.sample(dict(kind="replayed witness", case=case, obs=obs[0]))
    chk.diverge(d["where"], d["observed"], w, "replayed: " + str(d.get("detail"))) if _still(d, obs[0]) else None


def _still(d, o):
    if d["observed"] in ("timeout", "crash", "raise"):
        return o.get("outcome") == d["observed"]
    return True


def run(chk, replay):
    if chk.pid == "C17":
        run_c17(chk, replay)
    else:
        import eng_format
        eng_format.run(chk, replay, _build())
