"""Transition tours: turn the edge list exported by TLC (EDGE lines: {from, act, to}) into a set of
behaviours from the initial state that together take every edge of the bounded graph at least once.

Edges whose action carries alternatives (`act.alt` non-empty: the specification leaves the outcome open)
are only ever the *last* step of a path, and are compared against all alternatives by the caller."""
import json
from collections import defaultdict, deque


class Graph:
    def __init__(self):
        self.out = defaultdict(list)        # state key -> list of edge indices
        self.edges = []                     # (u, act, v)
        self.alts = defaultdict(list)       # (u, op, argskey) -> list of edge indices
        self.seen = set()
        self.keys = {}                      # interned state keys
        self.states = {}                    # state key -> parsed state
        self.acts = {}                      # action key -> (key, parsed action)

    def add(self, line):
        e = json.loads(line) if isinstance(line, str) else line
        # state keys, parsed states and action keys are shared between the edges that mention them (a graph of 2M
        # edges has a few 10^4 states: one string / one dict per state, not per edge)
        u = json.dumps(e["from"], separators=(",", ":"), sort_keys=True)
        v = json.dumps(e["to"], separators=(",", ":"), sort_keys=True)
        u = self.keys.setdefault(u, u)
        v = self.keys.setdefault(v, v)
        to = self.states.setdefault(v, e["to"])
        a = e["act"]
        ak = json.dumps(a, separators=(",", ":"), sort_keys=True)
        if ak in self.acts:
            ak, a = self.acts[ak]
        else:
            self.acts[ak] = (ak, a)
        key = (u, ak, v)
        if key in self.seen:
            return
        self.seen.add(key)
        idx = len(self.edges)
        self.edges.append((u, a, v, to))
        self.out[u].append(idx)
        self.alts[(u, a["op"], json.dumps(a["args"]))].append(idx)

    def add_all(self, lines):
        """Adds every line and empties the list on the way (the raw export of a large model is gigabytes)."""
        lines.reverse()
        while lines:
            self.add(lines.pop())

    def is_open(self, idx):
        u, a, v, _ = self.edges[idx]
        return bool(a.get("alt")) or len(self.alts[(u, a["op"], json.dumps(a["args"]))]) > 1

    def tours(self, init_key, max_len=40, usable=lambda a: True):
        """Returns list of paths; a path is a list of edge indices. Edges for which usable(act) is False are
        neither covered nor used."""
        if init_key not in self.out:
            raise ValueError("tour: the initial state is not a node of the exported graph (%d edges): %s" % (len(self.edges), init_key[:200]))
        parent = {init_key: None}
        dq = deque([init_key])
        order = []
        while dq:
            u = dq.popleft()
            order.append(u)
            for idx in self.out[u]:
                _, a, v, _ = self.edges[idx]
                if not usable(a) or self.is_open(idx):
                    continue
                if v not in parent:
                    parent[v] = idx
                    dq.append(v)

        def path_to(u):
            p = []
            while parent[u] is not None:
                idx = parent[u]
                p.append(idx)
                u = self.edges[idx][0]
            p.reverse()
            return p

        covered = set()
        paths = []
        for u in order:
            for idx in self.out[u]:
                if idx in covered or not usable(self.edges[idx][1]):
                    continue
                p = path_to(u) + [idx]
                covered.add(idx)
                cur = idx
                while len(p) < max_len and not self.is_open(cur):
                    v = self.edges[cur][2]
                    nxt = None
                    nxt_open = None
                    for j in self.out[v]:
                        if j in covered or not usable(self.edges[j][1]):
                            continue
                        if self.is_open(j):
                            nxt_open = j if nxt_open is None else nxt_open
                        else:
                            nxt = j
                            break
                    if nxt is None:
                        nxt = nxt_open
                    if nxt is None:
                        break
                    p.append(nxt)
                    covered.add(nxt)
                    cur = nxt
                paths.append(p)
        unreachable = [i for i in range(len(self.edges)) if i not in covered and usable(self.edges[i][1]) and self.edges[i][0] in parent]
        return paths, len(covered), unreachable
