"""C16: HashOrd.tla (design: bucketed hash set over an arbitrary coherent hash function; order laws) and
HashOrdTrace.tla (observed comparisons / hashes / container operations) <-> hash_driver."""
import json
import random

import vcommon as vc


def tlaps(chk):
    """Unbounded part: TLAPS proves that the lexicographic order on member tuples (any length, integer components) is
    irreflexive, transitive, asymmetric and decided at the first difference.  Tool trouble is noted, a failed
    obligation is a verdict on the specification."""
    import re, shutil, subprocess, tempfile, os
    exe = shutil.which("tlapm")
    if not exe:
        chk.notes.append("tlapm not found: order laws only checked on the bounded grid")
        return
    tmp = tempfile.mkdtemp(prefix="tlaps_", dir=vc.OUT)
    shutil.copy(os.path.join(vc.SPEC, "hashord", "tlaps", "LexOrderProof.tla"), tmp)
    try:
        p = subprocess.run([exe, "--cleanfp", "LexOrderProof.tla"], cwd=tmp, capture_output=True, text=True, timeout=600)
        out = p.stdout + p.stderr
        m = re.search(r"All (\d+) obligations? proved", out)
        if m:
            chk.notes.append("TLAPS: LexOrderProof.tla, all %s obligations proved (irreflexive, transitive, asymmetric, decided at the first difference; any tuple length)" % m.group(1))
        elif re.search(r"obligations? failed", out):
            pth = os.path.join(chk.out, "tlaps.txt")
            open(pth, "w").write(out[-4000:])
            chk.divergences.append(dict(where="model:LexOrderProof", observed="obligation failed", witness=None, detail="TLAPS could not prove an obligation of LexOrderProof.tla", replay=pth))
        else:
            chk.notes.append("TLAPS: tool problem (rc=%s), order laws only checked on the bounded grid" % p.returncode)
    except subprocess.TimeoutExpired:
        chk.notes.append("TLAPS timed out: order laws only checked on the bounded grid")
    finally:
        shutil.rmtree(tmp, ignore_errors=True)


def run(chk, replay_path):
    exe = vc.build_driver("hash_driver", ["hash_driver.cpp"])
    r = vc.run_tlc("hashord/HashOrd", "hashord/MC_HashOrd.cfg", timeout=1500)
    chk.add_tlc("HashOrd (coherent hash functions)", r)
    if not r["ok"]:
        chk.model_violation("HashOrd", r)
        return
    r2 = vc.run_tlc("hashord/HashOrd", "hashord/MC_HashOrd_incoherent.cfg", timeout=600)
    if r2["violated"] != "FindsExactly":
        raise vc.Infra("negative control: an incoherent hash function does not break lookups in the model (%s)" % r2["violated"])
    chk.notes.append("negative control: with hash functions that ignore equality the model violates FindsExactly")
    chk.exhaustive = True
    tlaps(chk)
    rng = random.Random("%s/C16" % chk.seed)
    cases = []
    nruns = 6 if chk.tier == "quick" else 60
    for _ in range(nruns):
        sets = []
        for fam in (1, 2, 3):
            steps = []
            for _ in range(rng.randint(20, 120)):
                op = rng.choice(["ins", "ins", "find", "find", "erase"])
                if fam == 2:
                    steps.append([op, [rng.randint(0, 2), rng.randint(0, 2)], rng.randint(0, 1)])
                else:
                    steps.append([op, [rng.randint(0, 2), rng.randint(0, 3), rng.randint(0, 2)]])
            sets.append(dict(fam=fam, steps=steps))
        cases.append(dict(sets=sets))
    if replay_path:
        cases = [json.load(open(replay_path))["witness"]]
    obs = vc.run_cases(exe, cases, chk.out, "grid", per_case_timeout=20)
    execs, meta = [], []
    for c, o in zip(cases, obs):
        if o.get("outcome") != "ok":
            chk.diverge("Hash", o.get("outcome"), c, "driver %s (%s)" % (o.get("outcome"), o.get("why")))
            continue
        evs = []
        for e in o["events"]:
            # uniform records for TLC
            e = dict(e)
            for k, dv in (("a", []), ("b", []), ("v", []), ("h", []), ("fam", 0), ("arity", 0), ("swap", []), ("lt", False), ("eq", False), ("gt", False),
                          ("le", False), ("ge", False), ("ne", False), ("inserted", False), ("found", False), ("erased", False), ("size", 0)):
                e.setdefault(k, dv)
            evs.append(e)
        execs.append(evs)
        meta.append(c)
    rej, st = vc.validate_trace("hashord/HashOrdTrace", "hashord/HashOrdTrace.cfg", execs, chk.out, "trace", batch=1, timeout=1500, xmx="6g")
    chk.states += st["states"]
    chk.transitions += st["states"]
    chk.recorded += len(execs) - st["unexamined"]
    for k, matched, path, why in rej:
        ev = execs[k][min(matched, len(execs[k]) - 1)]
        kind = {"Cmp": "comparison", "Hash": "hash-differs-for-equal-values", "Done": "hash-ignores-component", "SetInsert": "container", "SetFind": "container", "SetErase": "container"}.get(ev["e"], "other")
        chk.diverge(ev["e"], kind, meta[k], "event %d rejected by HashOrdTrace (%s): %s" % (matched + 1, why, json.dumps({x: y for x, y in ev.items() if y not in ([], 0, False)})[:500]), artefact=path)
    n = sum(len(x) for x in execs)
    chk.notes.append("%d recorded events (all ordered pairs of two tuple_operators families compared; hashes of 6 type families; %d container operations)" % (
        n, sum(len(s["steps"]) for c in cases for s in c["sets"])))
    chk.bounds["grid"] = "(short x string x long) 3x4x3, (double incl. both zeros x int) 3x3, tuple<int,string,uchar>, pair<string, class>, variant<int,string>, shared_ptr/unique_ptr"
    if execs:
        chk.sample(dict(kind="code->spec events", events=[{x: y for x, y in e.items() if y not in ([], 0, False)} for e in execs[0][:3]]))
    chk.assumptions += ["std::hash of libstdc++ for the leaf types; NaN is excluded (no order can be total on it)",
                        "collision thresholds: fewer than 10% of the pairs differing in one component / by a swap may collide",
                        "smart pointers: only 'the same pointer hashes the same' is required"]
