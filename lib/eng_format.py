"""C08: Format.tla <-> text_driver (ops format / raise)."""
import json
import random

import vcommon as vc
from vcommon import b


def _s(x):
    return vc.ub(x) if isinstance(x, list) and (not x or isinstance(x[0], int)) else x


def to_driver(c, via):
    if c["op"] == "format":
        return dict(op="format", fmt=c["fmt"], args=c["args"], via=via)
    return dict(op="raise", items=c["args"])


def hist_driver(ops):
    return dict(op="fhist", ops=[dict(op="format", fmt=x["fmt"], args=x["args"], cont=x["cont"]) if x["op"] == "format" else dict(op="raise", items=x["args"]) for x in ops])


def compare(chk, c, o, via, wit=None, pre=""):
    """Returns True if the observation diverges."""
    n0 = len(chk.divergences)
    _compare(chk, c, o, via, wit, pre)
    return len(chk.divergences) > n0


def _compare(chk, c, o, via, wit=None, pre=""):
    wit = wit or to_driver(c, via)
    got = o.get("outcome")
    if got == "skipped":
        return
    where = pre + ("Format" if c["op"] == "format" else "Raise")
    if got in ("timeout", "crash", "unsupported"):
        chk.diverge(where, got, wit, "spec: %s; implementation: %s %s" % (c["outcome"], got, o.get("why")))
        return
    if c["outcome"] == "raise":
        if got != "raise":
            chk.diverge(where + "/arity", "ok", wit, "format(%r) with %d arguments: spec raises, implementation returned %r"
                        % (_s(c.get("fmt")), len(c["args"]), _s(o.get("out"))))
        elif o.get("cls") != "nitro_exception":
            chk.diverge(where, "raise:" + str(o.get("cls")), wit, "wrong exception class")
        elif c["op"] == "raise" and o.get("out") != c["out"]:
            chk.diverge(pre + "Raise", "wrong-result", wit, "message of raise(%s): spec %r implementation %r" % (
                ", ".join(("%s:%r" % (a["t"], _s(a["v"]) if a["t"] == "s" else a["v"])) for a in c["args"]), _s(c["out"]), _s(o.get("out"))))
        return
    if got != "ok":
        chk.diverge(where, "raise", wit, "format(%r) %% %r: spec ok %r, implementation raised %r"
                    % (_s(c["fmt"]), [_s(a) for a in c["args"]], _s(c["out"]), _s(o.get("what"))))
        return
    for k in ("out", "conv", "stream"):
        if o.get(k) != c["out"]:
            chk.diverge(where, "wrong-result", wit, "format(%r) %% %r via %s/%s: spec %r, implementation %r"
                        % (_s(c["fmt"]), [_s(a) for a in c["args"]], via, k, _s(c["out"]), _s(o.get(k))))
            return


def rand_cases(rng, n):
    pieces = [b"{}", b"{}", b"{", b"}", b"a", b"bc", b" ", b"%", b"{{}}", b"}{", b"\n", b"\xc3\xa4", b"{ }", b"\\{\\}"]
    argv = [b"", b"x", b"{}", b"{", b"}{", b"hello world", b"{}{}", b"42", b"\xff", b"a{}b"]
    out = []
    for _ in range(n):
        if rng.random() < 0.8:
            f = b"".join(rng.choice(pieces) for _ in range(rng.choice([0, 1, 2, 3, 5, 8, 20])))
            k = f.count(b"{}")
            # count non-overlapping left-to-right
            k = 0; i = 0
            while True:
                j = f.find(b"{}", i)
                if j < 0: break
                k += 1; i = j + 2
            r = rng.random()
            na = k if r < 0.7 else (k + 1 if r < 0.85 else max(0, k - 1))
            na = min(na, 5)
            out.append((dict(op="format", fmt=b(f), args=[b(rng.choice(argv)) for _ in range(na)]),
                        rng.choice(["mod", "args", "copy"] + (["nf"] if 0 not in f else []))))
        else:
            shape = rng.choice(["s", "i", "ss", "si", "is", "ii", "sss", "sis", "isi", "ssi", "iss", "sii", "iis", "iii",
                                "ssss", "sisi", "isis"])
            items = [dict(t="s", v=b(rng.choice(argv))) if ch == "s" else dict(t="i", v=rng.choice([0, 1, -1, 7, 42, -12, 1000, 2147483647, -2147483647]))
                     for ch in shape]
            out.append((dict(op="raise", args=items), "mod"))
    return out


def rand_hists(rng, n):
    """Random histories on one thread: fresh formatters, renders repeated, arguments added after a render, raises whose
    items include the hex-switching type."""
    pieces = [b"{}", b"{}", b"{", b"}", b"a", b"bc", b" ", b"{{}}", b"}{"]
    argv = [b"", b"x", b"{}", b"{", b"hello", b"42", b"a{}b", b"<x>", b"<>", b"<{}>", b"<a b>"]
    out = []
    for _ in range(n):
        h = []
        for _ in range(rng.randint(2, 6)):
            r = rng.random()
            last = h[-1] if h else None
            if last and last["op"] == "format" and r < 0.25:
                h.append(dict(op="format", fmt=last["fmt"], args=list(last["args"]), cont="again"))
            elif last and last["op"] == "format" and r < 0.55 and len(last["args"]) < 6:
                h.append(dict(op="format", fmt=last["fmt"], args=list(last["args"]) + [b(rng.choice(argv))], cont=rng.choice(["mod", "args"])))
            elif r < 0.8:
                f = b"".join(rng.choice(pieces) for _ in range(rng.choice([0, 1, 2, 3, 5])))
                k = 0; i = 0
                while True:
                    j = f.find(b"{}", i)
                    if j < 0: break
                    k += 1; i = j + 2
                na = max(0, min(5, k + rng.choice([0, 0, 0, -1, -1, 1])))
                h.append(dict(op="format", fmt=b(f), args=[b(rng.choice(argv)) for _ in range(na)], cont="new"))
            else:
                items, hexed = [], False
                for _ in range(rng.randint(1, 4)):
                    t = rng.choice("ssiih")
                    if t == "s":
                        items.append(dict(t="s", v=b(rng.choice(argv))))
                    elif t == "h":
                        items.append(dict(t="h", v=rng.choice([0, 9, 10, 255, 4096, 48879])))
                        hexed = True
                    else:
                        items.append(dict(t="i", v=rng.choice([0, 7, 10, 42, 255, 1000, 65535] + ([] if hexed else [-1, -12]))))
                h.append(dict(op="raise", fmt=[], args=items, cont="new"))
        out.append(h)
    return out


def run(chk, replay, exe):
    tier = chk.tier
    if replay:
        d = json.load(open(replay))
        obs = vc.run_cases(exe, [d["witness"]], chk.out, "replay1")
        print("replayed witness:", json.dumps(d["witness"]), "->", json.dumps(obs[0]))
        chk.states = chk.transitions = 1
        chk.replayed = 1
        chk.sample(dict(kind="replayed witness", obs=obs[0]))
        if obs[0].get("outcome") == d["observed"] or d["observed"] == "wrong-result":
            chk.diverge(d["where"], d["observed"], d["witness"], "replayed: " + str(d.get("detail")))
        return
    r = vc.run_tlc("text/MC_Format", "text/MC_Format_%s.cfg" % tier, coverage=True, timeout=3000, xmx="16g")
    chk.add_tlc("MC_Format/" + tier, r)
    if not r["ok"]:
        chk.model_violation("MC_Format", r)
        return
    chk.exhaustive = True
    chk.bounds["model"] = "formats over {'{','}','a'} up to length %d; 0..k+1 arguments (max %d) from {'', 'x', '{}', '{', '}{'}; raise messages of 1..3 items" % (
        (5, 3) if tier == "quick" else (7, 4))
    cases = [json.loads(x)["ops"][0] for x in r["lines"]["CASE"]]
    if len(cases) < 1000:
        raise vc.Infra("Format model exported only %d cases" % len(cases))
    dc = []
    for c in cases:
        if c["op"] == "format":
            dc.append((c, "mod"))
            dc.append((c, "args"))
            if len(c["args"]) >= 2:
                dc.append((c, "copy"))
            if all(x < 128 for x in c["fmt"]) and all(x < 128 for a in c["args"] for x in a):
                dc.append((c, "nf"))
        else:
            dc.append((c, "mod"))
    obs = vc.run_cases(exe, [to_driver(c, via) for c, via in dc], chk.out, "replay", per_case_timeout=5)
    for (c, via), o in zip(dc, obs):
        compare(chk, c, o, via)
    chk.replayed += len(dc)
    for c, via in dc[:: max(1, len(dc) // 3)][:3]:
        chk.sample(dict(kind="spec->code case", op=c["op"], fmt=_s(c["fmt"]), args=[_s(a) if isinstance(a, list) else a for a in c["args"]],
                        via=via, expected=c["outcome"], out=_s(c["out"])))
    # object level: histories of operations on one thread (a formatter rendered, given more, rendered again; raises)
    hm = "MC_Format_hist_%s.cfg" % tier
    r = vc.run_tlc("text/MC_Format", "text/" + hm, timeout=3000, xmx="16g")
    chk.add_tlc(hm, r)
    if not r["ok"]:
        chk.model_violation(hm, r)
        return
    hists = [json.loads(x)["ops"] for x in r["lines"]["CASE"]]
    if len(hists) < 500:
        raise vc.Infra("Format history model exported only %d histories" % len(hists))
    hobs = vc.run_cases(exe, [hist_driver(h) for h in hists], chk.out, "replay_hist", per_case_timeout=10)
    for h, o in zip(hists, hobs):
        if o.get("outcome") == "skipped":
            continue
        got = o.get("ops") if o.get("outcome") == "ok" else o.get("steps", [])
        for k, x in enumerate(h):
            wit = hist_driver(h[:k + 1])
            if k >= len(got):
                chk.diverge("History/" + ("Format" if x["op"] == "format" else "Raise"), str(o.get("outcome")), wit, "operation %d of a history: %s (%s)" % (k + 1, o.get("outcome"), o.get("why")))
                break
            pre = "" if k == 0 else "History/" + {"new": "", "again": "RenderAgain/", "mod": "SupplyMore/", "args": "SupplyMore/"}[x["cont"]]
            if compare(chk, x, got[k], x["cont"], wit=wit, pre=pre):
                break
    chk.replayed += len(hists)
    chk.bounds["history model"] = "%d operations per history: fresh formatter / render again / one more argument via %% or args(...) / raise with text, integer and hex-switching items" % (2 if tier == "quick" else 3)
    chk.sample(dict(kind="spec->code history", ops=[(x["op"], x["cont"], _s(x["fmt"]), [(_s(a) if isinstance(a, list) else a) for a in x["args"]], x["outcome"]) for x in hists[len(hists) // 2]]))
    # code -> spec
    rng = random.Random(chk.seed)
    n = 4000 if tier == "quick" else 60000
    rc = rand_cases(rng, n)
    robs = vc.run_cases(exe, [to_driver(c, via) for c, via in rc], chk.out, "record", per_case_timeout=5)
    execs, cur = [], []
    for (c, via), o in zip(rc, robs):
        ev = dict(e=c["op"], fmt=c.get("fmt", []), args=c["args"], via=via, cont="new", outcome=o.get("outcome"), cls=o.get("cls", ""),
                  out=o.get("out", []), conv=o.get("conv", []), stream=o.get("stream", []))
        cur.append((c, via, o, ev))
        if len(cur) == 25:
            execs.append(cur); cur = []
    if cur:
        execs.append(cur)
    # recorded histories: each becomes one execution (events carry how they continue the previous one)
    rh = rand_hists(rng, n // 8)
    hobs = vc.run_cases(exe, [hist_driver(h) for h in rh], chk.out, "record_hist", per_case_timeout=10)
    for h, o in zip(rh, hobs):
        if o.get("outcome") == "skipped":
            continue
        got = o.get("ops") if o.get("outcome") == "ok" else o.get("steps", [])
        cur = []
        for k, x in enumerate(h):
            g = got[k] if k < len(got) else dict(outcome=str(o.get("outcome")))
            c = dict(op=x["op"], fmt=x["fmt"], args=x["args"])
            ev = dict(e=x["op"], fmt=x["fmt"], args=x["args"], via="hist", cont=x["cont"], outcome=g.get("outcome"), cls=g.get("cls", ""),
                      out=g.get("out", []), conv=g.get("conv", []), stream=g.get("stream", []))
            cur.append((c, x["cont"], g, ev, hist_driver(h[:k + 1])))
            if k >= len(got):
                break
        execs.append(cur)
    rej, st = vc.validate_trace("text/FormatTrace", "text/FormatTrace.cfg", [[e[3] for e in ex] for ex in execs], chk.out, "trace")
    chk.states += st["states"]; chk.transitions += st["states"]
    chk.recorded += len(execs)
    for k, matched, path, why in rej:
        e = execs[k][min(matched, len(execs[k]) - 1)]
        c, via, o, ev = e[:4]
        wit = e[4] if len(e) > 4 else to_driver(c, via)
        where = ("History/" if len(e) > 4 and matched > 0 else "") + ("Format" if c["op"] == "format" else "Raise")
        chk.diverge(where, "wrong-result" if o.get("outcome") in ("ok", "raise") else str(o.get("outcome")), wit,
                    "recorded call rejected by FormatTrace at event %d (%s): %s -> %s" % (matched, why, json.dumps(wit)[:600], json.dumps(o)[:400]),
                    artefact=path)
    chk.sample(dict(kind="code->spec event", event=execs[0][0][3]))
    chk.assumptions += ["stream representation of std::string is the string itself, of integers their decimal text (libstdc++, C locale)",
                        "sanitizer build behaves like a plain build apart from detection"]
