"""C08: Format.tla <-> text_driver (ops format / raise)."""
import json
import random

import vcommon as vc
from vcommon import b


def _s(x):
    return vc.ub(x) if isinstance(x, list) and (not x or isinstance(x[0], int)) else x


def to_driver(c, via):
    if c["op"] == "format":
        return dict(op="format", fmt=c["fmt"], args=c["args"], via=via)
    return dict(op="raise", items=c["args"])


def compare(chk, c, o, via):
    wit = to_driver(c, via)
    got = o.get("outcome")
    if got == "skipped":
        return
    where = "Format" if c["op"] == "format" else "Raise"
    if got in ("timeout", "crash", "unsupported"):
        chk.diverge(where, got, wit, "spec: %s; implementation: %s %s" % (c["outcome"], got, o.get("why")))
        return
    if c["outcome"] == "raise":
        if got != "raise":
            chk.diverge(where + "/arity", "ok", wit, "format(%r) with %d arguments: spec raises, implementation returned %r"
                        % (_s(c.get("fmt")), len(c["args"]), _s(o.get("out"))))
        elif o.get("cls") != "nitro_exception":
            chk.diverge(where, "raise:" + str(o.get("cls")), wit, "wrong exception class")
        elif c["op"] == "raise" and o.get("out") != c["out"]:
            chk.diverge("Raise", "wrong-result", wit, "message: spec %r implementation %r" % (_s(c["out"]), _s(o.get("out"))))
        return
    if got != "ok":
        chk.diverge(where, "raise", wit, "format(%r) %% %r: spec ok %r, implementation raised %r"
                    % (_s(c["fmt"]), [_s(a) for a in c["args"]], _s(c["out"]), _s(o.get("what"))))
        return
    for k in ("out", "conv", "stream"):
        if o.get(k) != c["out"]:
            chk.diverge(where, "wrong-result", wit, "format(%r) %% %r via %s/%s: spec %r, implementation %r"
                        % (_s(c["fmt"]), [_s(a) for a in c["args"]], via, k, _s(c["out"]), _s(o.get(k))))
            return


def rand_cases(rng, n):
    pieces = [b"{}", b"{}", b"{", b"}", b"a", b"bc", b" ", b"%", b"{{}}", b"}{", b"\n", b"\xc3\xa4", b"{ }", b"\\{\\}"]
    argv = [b"", b"x", b"{}", b"{", b"}{", b"hello world", b"{}{}", b"42", b"\xff", b"a{}b"]
    out = []
    for _ in range(n):
        if rng.random() < 0.8:
            f = b"".join(rng.choice(pieces) for _ in range(rng.choice([0, 1, 2, 3, 5, 8, 20])))
            k = f.count(b"{}")
            # count non-overlapping left-to-right
            k = 0; i = 0
            while True:
                j = f.find(b"{}", i)
                if j < 0: break
                k += 1; i = j + 2
            r = rng.random()
            na = k if r < 0.7 else (k + 1 if r < 0.85 else max(0, k - 1))
            na = min(na, 5)
            out.append((dict(op="format", fmt=b(f), args=[b(rng.choice(argv)) for _ in range(na)]),
                        rng.choice(["mod", "args", "copy"])))
        else:
            shape = rng.choice(["s", "i", "ss", "si", "is", "ii", "sss", "sis", "isi", "ssi", "iss", "sii", "iis", "iii",
                                "ssss", "sisi", "isis"])
            items = [dict(t="s", v=b(rng.choice(argv))) if ch == "s" else dict(t="i", v=rng.choice([0, 1, -1, 7, 42, -12, 1000, 2147483647, -2147483647]))
                     for ch in shape]
            out.append((dict(op="raise", args=items), "mod"))
    return out


def run(chk, replay, exe):
    tier = chk.tier
    if replay:
        d = json.load(open(replay))
        obs = vc.run_cases(exe, [d["witness"]], chk.out, "replay1")
        print("replayed witness:", json.dumps(d["witness"]), "->", json.dumps(obs[0]))
        chk.states = chk.transitions = 1
        chk.replayed = 1
        chk.sample(dict(kind="replayed witness", obs=obs[0]))
        if obs[0].get("outcome") == d["observed"] or d["observed"] == "wrong-result":
            chk.diverge(d["where"], d["observed"], d["witness"], "replayed: " + str(d.get("detail")))
        return
    r = vc.run_tlc("text/MC_Format", "text/MC_Format_%s.cfg" % tier, coverage=True, timeout=3000, xmx="16g")
    chk.add_tlc("MC_Format/" + tier, r)
    if not r["ok"]:
        chk.model_violation("MC_Format", r)
        return
    chk.exhaustive = True
    chk.bounds["model"] = "formats over {'{','}','a'} up to length %d; 0..k+1 arguments (max %d) from {'', 'x', '{}', '{', '}{'}; raise messages of 1..3 items" % (
        (5, 3) if tier == "quick" else (7, 4))
    cases = [json.loads(x) for x in r["lines"]["CASE"]]
    if len(cases) < 1000:
        raise vc.Infra("Format model exported only %d cases" % len(cases))
    dc = []
    for c in cases:
        if c["op"] == "format":
            dc.append((c, "mod"))
            dc.append((c, "args"))
            if len(c["args"]) >= 2:
                dc.append((c, "copy"))
        else:
            dc.append((c, "mod"))
    obs = vc.run_cases(exe, [to_driver(c, via) for c, via in dc], chk.out, "replay", per_case_timeout=5)
    for (c, via), o in zip(dc, obs):
        compare(chk, c, o, via)
    chk.replayed += len(dc)
    for c, via in dc[:: max(1, len(dc) // 3)][:3]:
        chk.sample(dict(kind="spec->code case", op=c["op"], fmt=_s(c["fmt"]), args=[_s(a) if isinstance(a, list) else a for a in c["args"]],
                        via=via, expected=c["outcome"], out=_s(c["out"])))
    # code -> spec
    rng = random.Random(chk.seed)
    n = 4000 if tier == "quick" else 60000
    rc = rand_cases(rng, n)
    robs = vc.run_cases(exe, [to_driver(c, via) for c, via in rc], chk.out, "record", per_case_timeout=5)
    execs, cur = [], []
    for (c, via), o in zip(rc, robs):
        ev = dict(e=c["op"], fmt=c.get("fmt", []), args=c["args"], via=via, outcome=o.get("outcome"), cls=o.get("cls", ""),
                  out=o.get("out", []), conv=o.get("conv", []), stream=o.get("stream", []))
        cur.append((c, via, o, ev))
        if len(cur) == 25:
            execs.append(cur); cur = []
    if cur:
        execs.append(cur)
    rej, st = vc.validate_trace("text/FormatTrace", "text/FormatTrace.cfg", [[e[3] for e in ex] for ex in execs], chk.out, "trace")
    chk.states += st["states"]; chk.transitions += st["states"]
    chk.recorded += len(execs)
    for k, matched, path, why in rej:
        c, via, o, ev = execs[k][min(matched, len(execs[k]) - 1)]
        where = "Format" if c["op"] == "format" else "Raise"
        chk.diverge(where, "wrong-result" if o.get("outcome") in ("ok", "raise") else str(o.get("outcome")), to_driver(c, via),
                    "recorded call rejected by FormatTrace at event %d (%s): %s -> %s" % (matched, why, json.dumps(to_driver(c, via)), json.dumps(o)),
                    artefact=path)
    chk.sample(dict(kind="code->spec event", event=execs[0][0][3]))
    chk.assumptions += ["stream representation of std::string is the string itself, of integers their decimal text (libstdc++, C locale)",
                        "sanitizer build behaves like a plain build apart from detection"]
