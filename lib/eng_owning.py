"""C18: Owning.tla <-> own_driver."""
import json
import random

import tour
import vcommon as vc


def cmp_step(act, to, g):
    if g["out"] != act["out"]:
        return ("read-empty-did-not-raise" if act["out"] == "raise" else g["out"]), "%s%s: outcome %s, specification %s" % (act["op"], act["args"], g["out"], act["out"])
    if g["val"] != act["val"]:
        return "wrong-value", "%s%s returned %s, specification %s" % (act["op"], act["args"], g["val"], act["val"])
    if g["ptr"] != to["ptr"] or g["vec"] != to["vec"]:
        return "wrong-owner", "after %s%s: pointers %s vector %s, specification %s / %s" % (act["op"], act["args"], g["ptr"], g["vec"], to["ptr"], to["vec"])
    want = [dict(destroyed=o["destroyed"], **{"as": o["as"]}) for o in to["obj"]]
    if g["obj"] != want:
        for i, (x, y) in enumerate(zip(g["obj"], want), 1):
            if x != y:
                kind = "destroyed-twice" if x["destroyed"] > 1 else ("not-destroyed" if x["destroyed"] < y["destroyed"] else ("destroyed-early" if x["destroyed"] > y["destroyed"] else "wrong-destructor"))
                return kind, "after %s%s: object #%d destroyed %d times as %s, specification %d times as %s" % (act["op"], act["args"], i, x["destroyed"], x["as"], y["destroyed"], y["as"])
        return "object-count", "after %s%s: %d objects exist, specification %d" % (act["op"], act["args"], len(g["obj"]), len(want))
    if g["opt"] != to["opt"]:
        return "wrong-optional", "after %s%s: optionals %s, specification %s" % (act["op"], act["args"], g["opt"], to["opt"])
    if g["bad"]:
        return "bad-destroy", "after %s%s: destructor ran on a dead or foreign object" % (act["op"], act["args"])
    if g["v_live"] != g["v_holding"]:
        return "aliased-or-leaked", "after %s%s: %d value objects alive for %d non-empty optionals" % (act["op"], act["args"], g["v_live"], g["v_holding"])
    return None


def replay(chk, exe, cfg, np_, no_, tag):
    g = tour.Graph()
    r = vc.run_tlc("owning/Owning", "owning/" + cfg, timeout=3000, xmx="6g", on_line={"EDGE": g.add})
    chk.add_tlc(cfg, r)
    if not r["ok"]:
        chk.model_violation(cfg, r)
        return
    root = json.dumps(dict(ptr=[0] * np_, vec=[], obj=[], opt=[[] for _ in range(no_)]), separators=(",", ":"), sort_keys=True)
    paths, ncov, unreach = g.tours(root, max_len=30)
    # in chunks: the cases and observations of several 10^5 paths are gigabytes when held at once
    CH = 60000
    for c0 in range(0, len(paths), CH):
        chunk = paths[c0:c0 + CH]
        cases = [dict(np=np_, no=no_, steps=[dict(op=g.edges[i][1]["op"], args=g.edges[i][1]["args"]) for i in p]) for p in chunk]
        obs = vc.run_cases(exe, cases, chk.out, "%s_%d" % (tag, c0 // CH), per_case_timeout=10)
        _compare_chunk(chk, g, chunk, cases, obs, np_, no_)
        del cases, obs
    chk.replayed += len(paths)
    chk.notes.append("%s: %d paths cover %d of %d edges" % (tag, len(paths), ncov, len(g.edges)))
    if paths:
        chk.sample(dict(kind="spec->code tour path", steps=["%s%s" % (g.edges[i][1]["op"], g.edges[i][1]["args"]) for i in paths[len(paths) // 2]][:12]))


def _compare_chunk(chk, g, paths, cases, obs, np_, no_):
    for p, c, o in zip(paths, cases, obs):
        if o.get("outcome") == "skipped":
            continue
        steps = o.get("steps", [])
        ok = True
        for k, idx in enumerate(p):
            u, act, v, to = g.edges[idx]
            wit = dict(np=np_, no=no_, steps=c["steps"][:k + 1])
            hist = ["%s%s" % (s["op"], s["args"]) for s in c["steps"][:k + 1]][-7:]
            if k >= len(steps):
                chk.diverge(act["op"], o.get("outcome", "crash"), wit, "history %s: %s (%s)" % (hist, o.get("outcome"), o.get("why")))
                ok = False
                break
            rr = cmp_step(act, to, steps[k])
            if rr:
                chk.diverge(act["op"], rr[0], wit, "history %s: %s" % (hist, rr[1]))
                ok = False
                break
        if ok and o.get("outcome") == "ok" and (o["end_twice"] or o["end_never"] or o["end_bad"] or o["end_v"]):
            chk.diverge("Destroy", "destroyed-twice" if o["end_twice"] else ("leak" if o["end_never"] or o["end_v"] else "bad-destroy"), dict(np=np_, no=no_, steps=c["steps"]),
                        "after all owners went away: %d objects destroyed twice, %d never, %d value objects left" % (o["end_twice"], o["end_never"], o["end_v"]))


def gen(rng, n):
    steps = []
    nvec = 0
    for _ in range(n):
        r = rng.random()
        p, q = rng.randint(1, 4), rng.randint(1, 4)
        if r < 0.2:
            steps.append(dict(op="Make", args=[p, rng.choice("ABC")]))
        elif r < 0.3:
            steps.append(dict(op="MoveAssign", args=[q, p]))
        elif r < 0.36 and p != q:
            steps.append(dict(op="MoveConstruct", args=[q, p]))
        elif r < 0.44:
            steps.append(dict(op="Reset", args=[p]))
        elif r < 0.52:
            steps.append(dict(op="Push", args=[p])); nvec += 1
        elif r < 0.55 and nvec:
            steps.append(dict(op="Reallocate", args=[]))
        elif r < 0.6 and nvec:
            steps.append(dict(op="TakeBack", args=[p])); nvec -= 1
        elif r < 0.63 and nvec:
            steps.append(dict(op="ClearVector", args=[])); nvec = 0
        elif r < 0.73:
            steps.append(dict(op="OptSetValue", args=[p, rng.randint(1, 9)]))
        elif r < 0.82:
            steps.append(dict(op="OptAssign", args=[p, q]))
        elif r < 0.87 and p != q:
            steps.append(dict(op="OptCopyConstruct", args=[p, q]))
        elif r < 0.92:
            steps.append(dict(op="OptAssignEmpty", args=[p]))
        else:
            steps.append(dict(op="OptRead", args=[p]))
    return steps


def run(chk, replay_path):
    exe = vc.build_driver("own_driver", ["own_driver.cpp"])
    if replay_path:
        d = json.load(open(replay_path))
        obs = vc.run_cases(exe, [d["witness"]], chk.out, "replay1")
        print("replayed witness:", json.dumps(d["witness"]))
        print("observation:", json.dumps(obs[0])[:3000])
        chk.states = chk.transitions = chk.replayed = 1
        chk.sample(dict(kind="replayed witness", observation=obs[0]))
        return
    if chk.thorough():
        replay(chk, exe, "MC_Owning_ptr_thorough.cfg", 3, 1, "tour_ptr")
    else:
        replay(chk, exe, "MC_Owning_ptr.cfg", 2, 1, "tour_ptr")
    replay(chk, exe, "MC_Owning_opt.cfg", 1, 3, "tour_opt")
    chk.exhaustive = True
    chk.bounds["models"] = "pointer pool: %s slots + a vector, payload types %s, all histories creating up to %d objects; optional pool: 3 optionals over 2 values" % (
        (3, "A/B/C", 4) if chk.thorough() else (2, "A/B", 3))
    rng = random.Random("%s/C18" % chk.seed)
    rc = [dict(np=4, no=4, steps=gen(rng, rng.randint(5, 40))) for _ in range(800 if chk.tier == "quick" else 10000)]
    robs = vc.run_cases(exe, rc, chk.out, "record", per_case_timeout=10)
    execs, meta = [], []
    for c, o in zip(rc, robs):
        if o.get("outcome") == "skipped":
            continue
        evs = []
        steps = o.get("steps", [])
        for k, s in enumerate(c["steps"]):
            name = "ResetPtr" if s["op"] == "Reset" else s["op"]
            if k >= len(steps):
                evs.append(dict(e=name, args=s["args"], out=str(o.get("outcome")), val=[], ptr=[], vec=[], obj=[], opt=[], bad=0, v_live=0, v_holding=0))
                break
            x = steps[k]
            evs.append(dict(e=name, args=s["args"], out=x["out"], val=x["val"], ptr=x["ptr"], vec=x["vec"], obj=x["obj"], opt=x["opt"], bad=x["bad"],
                            v_live=x["v_live"], v_holding=x["v_holding"]))
        if o.get("outcome") == "ok" and (o["end_twice"] or o["end_never"] or o["end_bad"] or o["end_v"]):
            chk.diverge("Destroy", "leak" if (o["end_never"] or o["end_v"]) else "destroyed-twice", dict(np=4, no=4, steps=c["steps"]),
                        "after all owners went away: %d destroyed twice, %d never destroyed, %d value objects left" % (o["end_twice"], o["end_never"], o["end_v"]))
        execs.append(evs)
        meta.append(c)
    rej, st = vc.validate_trace("owning/OwningTrace", "owning/OwningTrace.cfg", execs, chk.out, "trace", batch=4000)
    chk.states += st["states"]
    chk.transitions += st["states"]
    chk.recorded += len(execs) - st["unexamined"]
    for k, matched, path, why in rej:
        ev = execs[k][min(matched, len(execs[k]) - 1)]
        chk.diverge(ev["e"].replace("ResetPtr", "Reset"), "trace-rejected" if ev["out"] in ("ok", "raise") else ev["out"], dict(np=4, no=4, steps=meta[k]["steps"][:matched + 1]),
                    "recorded call %d rejected by OwningTrace (%s): %s%s -> %s ptr=%s vec=%s obj=%s opt=%s v_live=%s" % (
                        matched + 1, why, ev["e"], ev["args"], ev["out"], ev["ptr"], ev["vec"], [(x["destroyed"], x["as"]) for x in ev["obj"]], ev["opt"], ev["v_live"]), artefact=path)
    if execs:
        chk.sample(dict(kind="code->spec events", events=[(e["e"], e["args"]) for e in execs[0][:8]]))
    chk.assumptions += ["payload destructors record (object id, static type); an object destroyed through the wrong type shows as a foreign destructor",
                        "LeakSanitizer / ASan as backstop for memory-level leaks"]
