"""C06 / C07: FixedVector.tla <-> fv_driver."""
import json
import os
import random

import tour
import vcommon as vc

MOVE_OPS = {"Construct", "MoveConstruct", "MoveAssign", "Destroy", "At", "SetAt", "EmplaceBack", "InsertMove", "EmplaceAt",
            "PopBack", "Erase"}

LVALUE_TU = r'''
#include <memory>
#include <nitro/lang/fixed_vector.hpp>
#include <string>
int f() {
    nitro::lang::fixed_vector<int> v(2);
    int x = 5;
    v.insert(x);                 // appending an lvalue
    nitro::lang::fixed_vector<std::string> w(2);
    std::string s = "a";
    w.insert(s);
    return static_cast<int>(v.size() + w.size());
}
'''


def build(chk):
    ok, err = vc.try_compile("fv_lvalue_insert", LVALUE_TU)
    flags = ["-DFV_HAS_LVALUE_INSERT"] if ok else []
    if not ok and chk.pid == "C07":
        first = [l for l in err.splitlines() if "error" in l][:1]
        chk.diverge("InsertCopy", "not_compiling", dict(tu="fixed_vector<int> v(2); int x = 5; v.insert(x);"),
                    "appending an lvalue with fixed_vector::insert(const T&) does not compile: %s" % (first[0][:300] if first else ""))
    name = "fv_driver" + ("_lv" if ok else "")
    r = vc.build_driver(name, ["fv_driver.cpp"], flags=flags, allow_fail=True)
    if r[0] is not None:
        return r[0], ok
    # feeding the range operations from a single-pass input iterator is an optional call form: if it does not compile
    # against this tree the driver is built without it (noted; the forms that are left still decide)
    vc.log("fv_driver: range operations do not accept a single-pass input iterator on this tree, building without that call form: " + " ".join(l for l in r[1].splitlines() if "error" in l)[:300])
    chk.notes.append("range operations from a single-pass input iterator do not compile against this tree: that call form was left out")
    return vc.build_driver(name + "_nosp", ["fv_driver.cpp"], flags=flags + ["-DVERIF_NO_SINGLEPASS"]), ok


def classify(kind):
    return {"crash": {"C06", "C07"}, "timeout": {"C06", "C07"}, "bad-touch": {"C06"}, "object-count": {"C06"}, "leak": {"C06"},
            "size-over-cap": {"C06"}, "missing-raise": {"C06"}, "unexpected-raise": {"C06", "C07"},
            "junk-visible": {"C06", "C07"}, "failed-op-changed-state": {"C06"}, "capacity-changed": {"C06", "C07"},
            "wrong-sequence": {"C07"}, "wrong-value": {"C07"}, "wrong-iteration": {"C07"}, "not-independent": {"C07"},
            "other": {"C06", "C07"}}.get(kind, {"C06", "C07"})


def cmp_state(exp, got, junk_check=True):
    """exp: abstract state list [{st,cap,seq}], got: projected list. Returns (kind, text) or None."""
    for c, (e, g) in enumerate(zip(exp, got), 1):
        if e["st"] == "absent":
            if g["st"] != "absent":
                return "other", "container %d should not exist" % c
            continue
        if g["st"] == "absent":
            return "other", "container %d does not exist" % c
        if g["size"] > g["cap"]:
            return "size-over-cap", "container %d: size %d > capacity %d" % (c, g["size"], g["cap"])
        if e["cap"] != g["cap"]:
            return "capacity-changed", "container %d: capacity %d, specification %d" % (c, g["cap"], e["cap"])
        if e["st"] == "dirty":
            continue
        if g["st"] == "dirty":
            continue
        if g["size"] != len(e["seq"]):
            return "wrong-sequence", "container %d: size %d, specification %d (%s)" % (c, g["size"], len(e["seq"]), e["seq"])
        for name in ("seq", "at", "fwd", "cfwd"):
            if g.get(name) != e["seq"]:
                junk = any(x <= 0 for x in g.get(name, []))
                return ("junk-visible" if junk else ("wrong-sequence" if name in ("seq", "at") else "wrong-iteration")), \
                    "container %d: %s = %s, specification %s" % (c, name, g.get(name), e["seq"])
        for name in ("rev", "viarev"):
            if g.get(name) != list(reversed(e["seq"])):
                junk = any(x <= 0 for x in g.get(name, []))
                return ("junk-visible" if junk else "wrong-iteration"), "container %d: reverse iteration (%s) = %s, specification %s" % (
                    c, name, g.get(name), list(reversed(e["seq"])))
        if e["seq"]:
            if g.get("front") != e["seq"][0] or g.get("back") != e["seq"][-1] or g.get("data0") != e["seq"][0]:
                return "wrong-value", "container %d: front/back/data() = %s/%s/%s, specification %s" % (c, g.get("front"), g.get("back"), g.get("data0"), e["seq"])
        if g.get("empty") != (len(e["seq"]) == 0):
            return "wrong-value", "container %d: empty() wrong" % c
    return None


def cmp_step(act, to, g):
    """act: spec action record, to: abstract post-state, g: observed step. Returns (kind, text) or None."""
    out = g["out"]
    if act["val"]:
        if out != [act["val"][0]]:
            if out == "raise":
                return "unexpected-raise", "%s%s raised, specification returns %s" % (act["op"], act["args"], act["val"][0])
            return ("junk-visible" if isinstance(out, list) and out and out[0] <= 0 else "wrong-value"), "%s%s returned %s, specification %s" % (
                act["op"], act["args"], out, act["val"][0])
    elif act["out"] == "raise":
        if out != "raise":
            return "missing-raise", "%s%s: specification raises (cannot be satisfied), implementation: %s" % (act["op"], act["args"], out)
    else:
        if out == "raise":
            return "unexpected-raise", "%s%s raised, specification: ok" % (act["op"], act["args"])
        if out != "ok":
            return "other", "%s%s: %s" % (act["op"], act["args"], out)
    r = cmp_state(to, g["state"])
    if r:
        if act["out"] == "raise" and act["op"] not in ("RangeInsert", "PushBackRange"):
            return "failed-op-changed-state", "after failed %s%s: %s" % (act["op"], act["args"], r[1])
        return r[0], "after %s%s: %s" % (act["op"], act["args"], r[1])
    if g["bad"]:
        return "bad-touch", "after %s%s: %d accesses to addresses holding no live element object" % (act["op"], act["args"], g["bad"])
    if g["objs"] != g["expect_objs"]:
        return "object-count", "after %s%s: %d live element objects, %d slots exist" % (act["op"], act["args"], g["objs"], g["expect_objs"])
    return None


def add_div(chk, kind, where, wit, text):
    props = classify(kind)
    if chk.pid in props:
        chk.diverge(where, kind, wit, text)


def replay(chk, exe, g, elem, usable, nc, tag):
    init = json.dumps([dict(st="absent", cap=0, seq=[], mf=False) for _ in range(nc)], separators=(",", ":"), sort_keys=True)
    paths, ncov, unreach = g.tours(init, max_len=30, usable=usable)
    cases = [dict(elem=elem, nc=nc, steps=[dict(op=g.edges[i][1]["op"], args=g.edges[i][1]["args"]) for i in p]) for p in paths]
    # "for every position at which an element operation may throw": every tour path once more with the 1st, 2nd, 3rd
    # element copy / move of its LAST step throwing; judged by FixedVectorTrace together with the recorded histories
    THROWING = {"EmplaceBack", "InsertMove", "InsertCopy", "PushBack", "EmplaceAt", "SetAt", "RangeInsert", "PushBackRange",
                "ConstructFrom", "ConstructList", "CopyConstruct", "CopyAssign", "AssignList", "Erase"}
    step = max(1, len(cases) // (20000 if chk.thorough() else 3000))
    for c in cases[::step]:
        if c["steps"] and c["steps"][-1]["op"] in THROWING:
            for k in (1, 2, 3):
                st = [dict(x) for x in c["steps"]]
                st[-1]["throw_at"] = k
                chk.fv_throw_cases.append(dict(elem=elem, nc=nc, steps=st))
    obs = vc.run_cases(exe, cases, chk.out, tag, per_case_timeout=10)
    nskipped = 0
    for p, c, o in zip(paths, cases, obs):
        if o.get("outcome") == "skipped":
            nskipped += 1
            continue
        steps = o.get("steps", [])
        bad = None
        for k, idx in enumerate(p):
            u, act, v, to = g.edges[idx]
            wit = dict(elem=elem, nc=nc, steps=c["steps"][:k + 1])
            if k >= len(steps):
                add_div(chk, o.get("outcome", "crash"), act["op"], wit,
                        "%s element type, step %d %s%s: implementation %s (%s)" % (elem, k + 1, act["op"], act["args"], o.get("outcome"), o.get("why")))
                bad = True
                break
            if g.is_open(idx):
                alts = g.alts[(u, act["op"], json.dumps(act["args"]))]
                rs = [cmp_step(g.edges[j][1], g.edges[j][3], steps[k]) for j in alts]
                r = None if any(x is None for x in rs) else rs[0]
            else:
                r = cmp_step(act, to, steps[k])
            if r:
                add_div(chk, r[0], act["op"], wit, "%s element type, history %s: %s" % (
                    elem, ["%s%s" % (s["op"], s["args"]) for s in c["steps"][:k + 1]][-6:], r[1]))
                bad = True
                break
        if not bad and o.get("outcome") == "ok":
            if o.get("leaked"):
                add_div(chk, "leak", "Destroy", dict(elem=elem, nc=nc, steps=c["steps"]), "%d element objects left after all containers were destroyed" % o["leaked"])
            elif o.get("bad_end"):
                add_div(chk, "bad-touch", "Destroy", dict(elem=elem, nc=nc, steps=c["steps"]), "double destruction / touch of dead object at the end")
    chk.replayed += len(paths) - nskipped
    chk.notes.append("%s: %d paths cover %d of %d edges (%d edges unreachable without open steps, %d paths skipped)" % (
        tag, len(paths), ncov, len(g.edges), len(unreach), nskipped))
    if paths:
        p = paths[len(paths) // 2]
        chk.sample(dict(kind="spec->code tour path", elem=elem, steps=["%s%s -> %s%s" % (g.edges[i][1]["op"], g.edges[i][1]["args"], g.edges[i][1]["out"], g.edges[i][1]["val"]) for i in p][:12]))


# ------------------------------------------------------------------------------------------------
# random histories with throw injection, validated by FixedVectorTrace


def gen_history(rng, nc, n, copyable, has_lv, big=False):
    """big: capacities and list lengths around 127 / 255 / 300 (sizes kept in narrow integers, index arithmetic)."""
    st = [None] * nc     # python mirror used only to generate calls whose preconditions make them defined
    steps = []
    V = lambda: rng.randint(1, 9)
    L = lambda: [V() for _ in range(rng.choice([0, 1, 3, 127, 128, 200, 255, 256, 257]) if big and rng.random() < 0.6 else rng.randint(0, 3))]
    for _ in range(n):
        c = rng.randrange(nc)
        if st[c] is None:
            r = rng.random()
            others = [d for d in range(nc) if st[d] is not None and st[d] != "dirty"]
            if r < 0.4 or not others:
                cap = rng.choice([127, 128, 255, 256, 257, 300]) if big else rng.randint(0, 6)
                if copyable and rng.random() < 0.4:
                    s = L()
                    if len(s) <= 3 and rng.random() < 0.5:     # initializer lists are spelled out in the driver: up to 3 elements
                        steps.append(dict(op="ConstructList", args=[c + 1, s]))
                        st[c] = dict(cap=len(s), seq=list(s))
                    else:
                        steps.append(dict(op="ConstructFrom", args=[c + 1, cap, s]))
                        if len(s) <= cap:
                            st[c] = dict(cap=cap, seq=list(s))
                else:
                    steps.append(dict(op="Construct", args=[c + 1, cap]))
                    st[c] = dict(cap=cap, seq=[])
            else:
                d = rng.choice(others)
                if copyable and rng.random() < 0.5:
                    steps.append(dict(op="CopyConstruct", args=[c + 1, d + 1]))
                    st[c] = dict(cap=st[d]["cap"], seq=list(st[d]["seq"]))
                else:
                    steps.append(dict(op="MoveConstruct", args=[c + 1, d + 1]))
                    st[c] = dict(cap=st[d]["cap"], seq=list(st[d]["seq"]))
                    st[d]["seq"] = []
            continue
        if st[c] == "dirty":
            steps.append(dict(op="Destroy", args=[c + 1]))
            st[c] = None
            continue
        s = st[c]
        ops = ["At", "At", "EmplaceBack", "EmplaceBack", "InsertMove", "EmplaceAt", "PopBack", "Erase", "Erase", "SetAt", "MoveAssign", "Destroy"]
        if copyable:
            ops += ["PushBack", "RangeInsert", "PushBackRange", "CopyAssign", "AssignList"] + (["InsertCopy"] if has_lv else [])
        op = rng.choice(ops)
        size, cap = len(s["seq"]), s["cap"]
        if op == "At":
            steps.append(dict(op=op, args=[c + 1, rng.randint(0, cap + 1)]))
        elif op in ("EmplaceBack", "InsertMove", "PushBack", "InsertCopy"):
            v = V()
            steps.append(dict(op=op, args=[c + 1, v]))
            if size < cap:
                s["seq"].append(v)
        elif op == "EmplaceAt":
            k, v = rng.randint(0, size), V()
            steps.append(dict(op=op, args=[c + 1, k, v]))
            if size < cap:
                s["seq"].insert(k, v)
        elif op == "PopBack":
            steps.append(dict(op=op, args=[c + 1]))
            if size:
                s["seq"].pop()
        elif op == "Erase":
            k = rng.randint(0, cap + 1)
            steps.append(dict(op=op, args=[c + 1, k]))
            if k < size:
                s["seq"].pop(k)
        elif op == "SetAt":
            if size:
                k, v = rng.randrange(size), V()
                steps.append(dict(op=op, args=[c + 1, k, v]))
                s["seq"][k] = v
        elif op == "Destroy":
            steps.append(dict(op=op, args=[c + 1]))
            st[c] = None
        elif op in ("MoveAssign", "CopyAssign"):
            others = [d for d in range(nc) if st[d] is not None and st[d] != "dirty" and (d != c or op == "CopyAssign")]
            if others:
                d = rng.choice(others)
                steps.append(dict(op=op, args=[c + 1, d + 1]))
                st[c] = dict(cap=st[d]["cap"], seq=list(st[d]["seq"]))
                if op == "MoveAssign":
                    st[d]["seq"] = []
        elif op == "AssignList":
            # only lists of exactly `cap` elements: both open alternatives of the specification coincide
            if cap <= 3:
                l = [V() for _ in range(cap)]
                steps.append(dict(op=op, args=[c + 1, list(l)]))
                s["seq"] = l
        elif op == "RangeInsert":
            k, r = rng.randint(0, min(size + 1, cap)), L()     # begin()+k must stay inside the storage
            steps.append(dict(op=op, args=[c + 1, k, r]))
            if k <= size:
                if k + len(r) <= cap:
                    s["seq"][k:k + len(r)] = r
                else:
                    st[c] = "dirty"
        elif op == "PushBackRange":
            r = L()
            steps.append(dict(op=op, args=[c + 1, r]))
            if size + len(r) <= cap:
                s["seq"] += r
            else:
                st[c] = "dirty"
        # throw injection: the next element copy/move number k throws; the containers involved are given up afterwards
        if steps and rng.random() < 0.10 and steps[-1]["op"] not in ("At", "Destroy", "Construct", "PopBack", "DestroyIfExists") and "throw_at" not in steps[-1]:
            last = steps[-1]
            last["throw_at"] = rng.choice([1, 1, 1, 2, 2, 3, 4])
            inv = [a - 1 for a in last["args"][:2] if isinstance(a, int) and 1 <= a <= nc]
            if last["op"] in ("EmplaceBack", "InsertMove", "PushBack", "InsertCopy", "EmplaceAt", "Erase", "SetAt", "RangeInsert", "PushBackRange", "AssignList", "ConstructFrom", "ConstructList"):
                inv = [last["args"][0] - 1]
            # give the involved containers up
            return_steps = []
            for d in set(inv):
                return_steps.append(dict(op="DestroyIfExists", args=[d + 1]))
                st[d] = None
            steps += return_steps
    for c in range(nc):
        if st[c] is not None:
            steps.append(dict(op="DestroyIfExists", args=[c + 1]))
    return steps


def record(chk, exe, has_lv, n_hist, nc=3, extra=()):
    rng = random.Random("%s/%s" % (chk.seed, chk.pid))
    cases = []
    for k in range(n_hist):
        copyable = k % 3 != 2
        cases.append(dict(elem="copy" if copyable else "move", nc=nc, steps=gen_history(rng, nc, rng.randint(5, 40), copyable, has_lv, big=(k % 40 == 7))))
    cases += [dict(c, nc=nc) for c in extra]      # (tour paths use 2 containers; the trace specification has NC = 3)
    # DestroyIfExists is a driver convenience (Destroy when the container exists): expand after the run
    dcases = [dict(elem=c["elem"], nc=nc, steps=[dict(s, op="DestroyIfExists") if s["op"] == "DestroyIfExists" else s for s in c["steps"]]) for c in cases]
    obs = vc.run_cases(exe, dcases, chk.out, "record", per_case_timeout=10)
    execs, meta = [], []
    for c, o in zip(dcases, obs):
        if o.get("outcome") == "skipped":
            continue
        evs = []
        steps = o.get("steps", [])
        prev = [dict(st="absent")] * nc
        for k, s in enumerate(c["steps"]):
            if k >= len(steps):
                evs.append(dict(e=s["op"], args=s["args"], out=str(o.get("outcome")), val=[], who=[], state=[], objs=-1, bad=0))
                break
            g = steps[k]
            op = s["op"]
            if op == "DestroyIfExists":
                if prev[s["args"][0] - 1]["st"] == "absent":
                    prev = g["state"]
                    continue
                op = "Destroy"
            out, val = (g["out"], []) if isinstance(g["out"], str) else ("ok", g["out"])
            who = [s["args"][0]] + ([s["args"][1]] if op in ("CopyConstruct", "MoveConstruct", "CopyAssign", "MoveAssign") else [])
            evs.append(dict(e=op, args=s["args"], out=out, val=val, who=who,
                            state=[dict(st=x["st"], cap=x["cap"], size=x["size"], seq=x.get("seq", [])) for ci, x in enumerate(g["state"], 1)],
                            objs=g["objs"], bad=g["bad"]))
            # cross-accessor consistency of the projection itself (the trace carries only seq)
            for ci, x in enumerate(g["state"], 1):
                if x["st"] == "live" and x["size"] <= x["cap"] and out not in ("threw", "raise") and not any(v <= 0 for v in x.get("seq", [])):
                    r = cmp_state([dict(st="live", cap=x["cap"], seq=x["seq"])], [x])
                    if r:
                        add_div(chk, r[0], op, dict(elem=c["elem"], nc=nc, steps=c["steps"][:k + 1]), "accessors disagree: " + r[1])
            prev = g["state"]
        if o.get("outcome") == "ok" and (o.get("leaked") or o.get("bad_end")):
            add_div(chk, "leak" if o.get("leaked") else "bad-touch", "Destroy", dict(elem=c["elem"], nc=nc, steps=c["steps"]),
                    "%s objects left / %s bad touches after destroying everything" % (o.get("leaked"), o.get("bad_end")))
        execs.append(evs)
        meta.append(c)
    rej, st = vc.validate_trace("fixedvec/FixedVectorTrace", "fixedvec/FixedVectorTrace.cfg", execs, chk.out, "trace", batch=3000)
    chk.states += st["states"]
    chk.transitions += st["states"]
    chk.recorded += len(execs) - st["unexamined"]
    for k, matched, path, why in rej:
        ev = execs[k][min(matched, len(execs[k]) - 1)]
        kind = "wrong-sequence"
        if ev["out"] in ("crash", "timeout"):
            kind = ev["out"]
        elif ev["bad"]:
            kind = "bad-touch"
        elif ev["objs"] != sum(x["cap"] for x in ev["state"] if x["st"] != "absent"):
            kind = "object-count"
        elif any(x["st"] != "absent" and x["size"] > x["cap"] for x in ev["state"]):
            kind = "size-over-cap"
        elif any(v <= 0 for x in ev["state"] for v in x.get("seq", [])):
            kind = "junk-visible"
        add_div(chk, kind, ev["e"], dict(elem=meta[k]["elem"], nc=nc, steps=meta[k]["steps"]),
                "recorded call %d rejected by FixedVectorTrace (%s): %s%s -> %s %s state=%s objs=%s bad=%s" % (
                    matched + 1, why, ev["e"], ev["args"], ev["out"], ev["val"], [(x["st"], x["cap"], x.get("seq")) for x in ev["state"]], ev["objs"], ev["bad"]))
    if execs and execs[0]:
        chk.sample(dict(kind="code->spec event", event=execs[0][min(3, len(execs[0]) - 1)]))


def run(chk, replay_path):
    exe, has_lv = build(chk)
    if replay_path:
        d = json.load(open(replay_path))
        obs = vc.run_cases(exe, [d["witness"]], chk.out, "replay1")
        print("replayed witness:", json.dumps(d["witness"]))
        print("observation:", json.dumps(obs[0])[:3000])
        chk.states = chk.transitions = chk.replayed = 1
        chk.sample(dict(kind="replayed witness", observation=obs[0]))
        return
    tier = chk.tier
    r = vc.run_tlc("fixedvec/FixedVector", "fixedvec/MC_FV_%s.cfg" % tier, timeout=3000, xmx="16g")
    chk.add_tlc("FixedVector/" + tier, r)
    if not r["ok"]:
        chk.model_violation("FixedVector", r)
        return
    g = tour.Graph()
    g.add_all(r["lines"]["EDGE"])
    if len(g.edges) < 1000:
        raise vc.Infra("FixedVector model exported only %d edges" % len(g.edges))
    chk.exhaustive = True
    chk.bounds["model"] = "2 containers, capacities %s, values %s, list arguments up to 2; all operation histories" % (
        ("{0,1,2}", "{1,2}") if tier == "quick" else ("{0,1,2,3}", "{1,2}"))
    chk.fv_throw_cases = []
    replay(chk, exe, g, "copy", (lambda a: True) if has_lv else (lambda a: a["op"] != "InsertCopy"), 2, "tour_copy")
    replay(chk, exe, g, "move", lambda a: a["op"] in MOVE_OPS, 2, "tour_move")
    record(chk, exe, has_lv, 600 if tier == "quick" else 8000, extra=chk.fv_throw_cases)
    chk.notes.append("%d tour paths re-run with an element operation of the last step throwing (positions 1-3)" % len(chk.fv_throw_cases))
    chk.assumptions += ["element objects are observed through an instance registry (construct/destroy/touch) and ASan/UBSan",
                        "operations are only called with arguments for which the C++ call itself is defined (positions within begin()..end())",
                        "self move-assignment is not exercised"]
