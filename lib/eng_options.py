"""Options engine: OptLex / OptMeaning / OptParse / OptRender.tla  <->  opt_driver  (C01-C04, C11, C12, C14)."""
import json
import os
import random

import vcommon as vc
from vcommon import b

NITRO_OPT_SRCS = ["src/options/parser.cpp", "src/options/group.cpp", "src/options/option.cpp", "src/options/toggle.cpp",
                  "src/options/multi_option.cpp", "src/env/get.cpp"]


def build():
    return vc.build_driver("opt_driver", ["opt_driver.cpp"], nitro_sources=NITRO_OPT_SRCS)


def _s(x):
    try:
        return vc.ub(x)
    except Exception:
        return x


def show_argv(av):
    return [_s(t) if len(t) < 60 else _s(t[:40]) + "...(%d bytes)" % len(t) for t in av]


# ------------------------------------------------------------------------------------------------
# spec -> code


def model_cases(chk, model, cfgfile=None, timeout=3000, xmx="24g"):
    """Runs a design model; returns list of cases (cfg dict, env, calls[{argv,res,why}], open[])."""
    side = json.load(open(os.path.join(vc.SPEC, "options", model + ".json")))
    r = vc.run_tlc("options/" + model, "options/" + (cfgfile or model + ".cfg"), coverage=False, timeout=timeout, xmx=xmx)
    chk.add_tlc(model, r)
    if not r["ok"]:
        chk.model_violation(model, r)
        return None
    lines = r["lines"]["CASE"]
    r["lines"]["CASE"] = None
    if not lines:
        raise vc.Infra("model %s exported no case" % model)
    return _LazyCases(lines, side)


class _LazyCases:
    """The exported cases of a model, parsed chunk by chunk (several million parsed cases are tens of gigabytes)."""
    def __init__(self, lines, side):
        self.lines, self.side = lines, side

    def __len__(self):
        return len(self.lines)

    def chunks(self, n=100000):
        for k in range(0, len(self.lines), n):
            out = []
            for ln in self.lines[k:k + n]:
                c = json.loads(ln)
                c["cfg"] = self.side[str(c["cfg"])]
                out.append(c)
            yield out


def _denv(env, variant):
    return ["unset" if (e == [] and (variant + k) % 2 == 0) else e for k, e in enumerate(env)]


def driver_case(c, variant=0, via="argv"):
    """A specification case as the driver's input.  Every call carries the environment it is made in; when they
    differ (ChangeEnv) the driver gets `envs` and re-establishes the environment before each call, having declared
    the parser under the environment of the LAST call (so nothing read at declaration time can look right)."""
    cenvs = [x.get("env", c["env"]) for x in c["calls"]]
    d = dict(cfg=c["cfg"], env=_denv(cenvs[0] if cenvs else c["env"], variant), calls=[x["argv"] for x in c["calls"]], via=via)
    if any(e != cenvs[0] for e in cenvs):
        d["envs"] = [_denv(e, variant + k) for k, e in enumerate(cenvs)]
    # AddLetter: short names attached between the calls (the side table has the declaration as first declared)
    base = [x["letter"] for x in c["cfg"]["decl"]]
    lets = [x.get("letters", base) for x in c["calls"]]
    if any(l != base for l in lets):
        d["letters"] = lets
    return d


def inputs_view(c):
    """The same history as seen through parse(vector<user_input>): expectation classes come from the specification
    (CaseRec.inputs); where both entry points accept, the result is the same."""
    calls = []
    for x, cls in zip(c["calls"], c["inputs"]):
        if cls == "ok":
            calls.append(dict(argv=x["argv"], res=x["res"], why="", env=x.get("env", c["env"]), **({"letters": x["letters"]} if "letters" in x else {})))
        elif cls == "parser_error":
            calls.append(dict(argv=x["argv"], res=dict(oc="parser_error", st=[], pos=[]), why="Inconsistent", env=x.get("env", c["env"]), **({"letters": x["letters"]} if "letters" in x else {})))
        else:
            calls.append(dict(argv=x["argv"], res=dict(oc="error", st=[], pos=[]), why=x["why"] or "Malformed", env=x.get("env", c["env"]), **({"letters": x["letters"]} if "letters" in x else {})))
    ok_calls = [k for k, (x, cls) in enumerate(zip(c["calls"], c["inputs"])) if cls == "ok" and x["res"]["oc"] != "ok"]
    if ok_calls:
        return None      # cannot happen: whatever the vector entry accepts the argv entry accepts too
    return dict(cfg=c["cfg"], env=c["env"], calls=calls, open=[False] * len(calls), inputs=c["inputs"])


def strip_st(st):
    return [dict(val=s["val"], list=s["list"], count=s["count"], prov=s["prov"]) for s in st]


def check_get(pos, get):
    n = len(pos)
    for g in get:
        i = g["idx"]
        if -n <= i < n:
            if g["r"] != "ok" or g["v"] != pos[i]:
                return "get(%d) = %r, expected %r" % (i, g.get("v", g["r"]), _s(pos[i]))
        elif g["r"] != "raise":
            return "get(%d) out of range returned %r" % (i, _s(g.get("v")))
    return None


def check_typed(st):
    for s in st:
        if s["val"] and "as_long" in s:
            txt = vc.ub(s["val"][0])
            want = int(txt)
            if s["as_long"] != want or s["as_int"] != want:
                return "typed access of %r gave %r" % (txt, s["as_long"])
            if "as_unsigned" in s and s["as_unsigned"] != want:
                return "unsigned access of %r gave %r" % (txt, s["as_unsigned"])
    return None


def compare_case(chk, c, o, dcase):
    """c: spec case, o: observation of the driver. One divergence at most per case (the first diverging call)."""
    if o.get("outcome") == "skipped":
        return
    calls = o.get("calls")
    if o.get("outcome") in ("crash", "timeout"):
        calls = o.get("steps", [])
    if o.get("outcome") == "declare_failed":
        chk.diverge("Declare", "raise", dcase, "declaring a consistent parser failed: %s" % o.get("what"))
        return
    for k, x in enumerate(c["calls"]):
        hist = " (call %d of %d on one parser)" % (k + 1, len(c["calls"])) if len(c["calls"]) > 1 else ""
        wit = dict(cfg=c["cfg"], env=dcase["env"], calls=dcase["calls"][:k + 1], via=dcase.get("via", "argv"))
        if "envs" in dcase:
            wit["envs"] = dcase["envs"][:k + 1]
            hist += " env of this call %s" % [e if e == "unset" else _s(e) for e in dcase["envs"][k]]
        if dcase.get("moved"):
            wit["moved"] = True
        if "letters" in dcase:
            wit["letters"] = dcase["letters"][:k + 1]
            hist += " short names at this call %s" % ["".join(chr(x) if x else "-" for x in dcase["letters"][k])]
        where0 = ("Scan/" + x["why"]) if x["res"]["oc"] == "error" else "Result"
        if dcase.get("via") == "inputs":
            where0 = "ViaInputs/" + where0
        if k > 0:
            where0 = "Reparse/" + where0
        if k >= len(calls):
            chk.diverge(where0, o.get("outcome"), wit, "parse(%s)%s: spec %s, implementation: %s (%s)" % (
                show_argv(x["argv"]), hist, x["res"]["oc"], o.get("outcome"), o.get("why")))
            return
        got = calls[k]
        exp = x["res"]
        if c["open"][k]:
            if got["oc"] not in ("ok", "parsing_error"):
                chk.diverge(where0, got["oc"], wit, "parse(%s): open outcome, but implementation raised %s" % (show_argv(x["argv"]), got["oc"]))
                return
            continue
        if exp["oc"] == "error":
            if got["oc"] != "parsing_error":
                chk.diverge(where0, got["oc"], wit, "parse(%s)%s: spec rejects (%s) with the user-input error, implementation: %s %s" % (
                    show_argv(x["argv"]), hist, x["why"], got["oc"],
                    ("pos=%s st=%s" % ([_s(p) for p in got.get("pos", [])], summarize(c["cfg"], got.get("st", [])))) if got["oc"] == "ok" else got.get("what", "")))
                return
            continue
        if exp["oc"] == "parser_error":
            if got["oc"] != "parser_error":
                chk.diverge(where0, got["oc"], wit, "inconsistent declaration: spec parser_error, implementation %s" % got["oc"])
                return
            continue
        # expected ok
        if got["oc"] != "ok":
            chk.diverge(where0, got["oc"], wit, "parse(%s)%s env=%s: spec accepts with %s pos=%s, implementation raised %s: %s" % (
                show_argv(x["argv"]), hist, [e if e == "unset" else _s(e) for e in dcase["env"]], summarize(c["cfg"], exp["st"]),
                [_s(p) for p in exp["pos"]], got["oc"], got.get("what")))
            return
        gst = strip_st(got["st"])
        if gst != exp["st"]:
            bad = [i for i in range(len(gst)) if gst[i] != exp["st"][i]]
            kind = c["cfg"]["decl"][bad[0]]["kind"]
            chk.diverge(where0, "wrong-" + kind, wit, "parse(%s)%s env=%s: spec %s, implementation %s" % (
                show_argv(x["argv"]), hist, [e if e == "unset" else _s(e) for e in dcase["env"]],
                summarize(c["cfg"], exp["st"]), summarize(c["cfg"], gst)))
            return
        if got["pos"] != exp["pos"]:
            chk.diverge(where0, "wrong-positionals", wit, "parse(%s)%s: spec positionals %s, implementation %s" % (
                show_argv(x["argv"]), hist, [_s(p) for p in exp["pos"]], [_s(p) for p in got["pos"]]))
            return
        e = check_get(got["pos"], got["get"]) or check_typed(got["st"]) or (None if got["consistent"] else "accessors disagree with each other")
        if e:
            chk.diverge("Access", "wrong-access", wit, "parse(%s): %s" % (show_argv(x["argv"]), e))
            return


def summarize(cfg, st):
    out = {}
    for d, s in zip(cfg["decl"], st):
        n = vc.ub(d["name"])
        if d["kind"] == "opt":
            out[n] = (_s(s["val"][0]) if s["val"] else None, s["prov"])
        elif d["kind"] == "multi":
            out[n] = ([_s(v) for v in s["list"]], s["prov"])
        else:
            out[n] = (s["count"], s["prov"])
    return out


def replay_model(chk, exe, model, variants=(0,), timeout=3000):
    allcases = model_cases(chk, model, timeout=timeout)
    if allcases is None:
        return
    for chunk_no, cases in enumerate(allcases.chunks()):
        _replay_chunk(chk, exe, model, variants, cases, chunk_no)


def _replay_chunk(chk, exe, model, variants, cases, chunk_no):
    dcs = []
    for c in cases:
        has_empty = any(e == [] for e in c["env"])
        for v in (variants if has_empty else variants[:1]):
            dcs.append((c, driver_case(c, v)))
        ci = inputs_view(c) if "inputs" in c else None
        if ci is not None:
            dcs.append((ci, driver_case(ci, 0, via="inputs")))
        if len(c["calls"]) > 1 or len(dcs) % 7 == 0:
            dm = driver_case(c, 0)
            dm["moved"] = True
            dcs.append((c, dm))
    obs = vc.run_cases(exe, [d for _, d in dcs], chk.out, "replay_%s_%d" % (model, chunk_no), per_case_timeout=10)
    skipped = 0
    for (c, d), o in zip(dcs, obs):
        if o.get("outcome") == "skipped":
            skipped += 1
        compare_case(chk, c, o, d)
    chk.replayed += len(dcs) - skipped
    if skipped:
        chk.notes.append("%d cases of %s not examined (driver death budget used up)" % (skipped, model))
    for c, d in (dcs[:: max(1, len(dcs) // 2)][:2] if chunk_no == 0 else []):
        chk.sample(dict(kind="spec->code behaviour", model=model, calls=[dict(argv=show_argv(x["argv"]), expect=x["res"]["oc"], why=x["why"]) for x in c["calls"]],
                        env=[e if e == "unset" else _s(e) for e in d["env"]], decl=[vc.ub(x["name"]) + ":" + x["kind"] for x in c["cfg"]["decl"]]))


# ------------------------------------------------------------------------------------------------
# code -> spec: random declarations / environments / vectors

NAMES = ["out", "in", "level", "file", "name", "x1", "verbose", "quiet", "dry", "force", "all", "multi", "inc", "def", "long-name", "a", "o", "n"]
LETTERS = "abcdefghiovqmxyzAB12"
VALUES = [b"", b"x", b"a=b", b"=x", b"-x", b"--out=y", b"a\nb", b" ", b"\xc3\xa4", b"12", b"-5", b"007", b"a;b", b"x y", b"\t", b"=", b"--", b"-", b"{}", b"a{}b", b"%s"]
ENVVALS = [b"x", b"--a=b", b"-5", b"-", b"a=b", b"=b", b"a;b", b";a;;b;", b"TRUE", b"0", b"maybe", b"on", b"Off", b"yes ", b"y", b";", b"--", b"a\nb", b"\xff\xfe"]


def rbytes(rng, n, alphabet=None):
    if alphabet:
        return bytes(rng.choice(alphabet) for _ in range(n))
    return bytes(rng.randint(1, 255) for _ in range(n))


def rand_value(rng):
    r = rng.random()
    if r < 0.7:
        return rng.choice(VALUES)
    if r < 0.9:
        return rbytes(rng, rng.randint(1, 6), b"ab-= ;\n\x80z")
    return rbytes(rng, rng.randint(1, 12))


def rand_cfg(rng, profile):
    n = rng.randint(1, 6)
    names = rng.sample(NAMES, n)
    letters = rng.sample(LETTERS, n)
    decl = []
    nenv = 0
    for k in range(n):
        kind = rng.choice(["opt", "multi", "toggle", "toggle"])
        if profile.get("toggles") and rng.random() < 0.6:
            kind = "toggle"
        letter = ord(letters[k]) if rng.random() < 0.7 else 0
        env = 0
        if rng.random() < profile.get("env", 0.3):
            nenv += 1
            env = nenv
        if kind == "opt":
            dflt = [b(rand_value(rng))] if rng.random() < 0.4 else []
            decl.append(dict(kind=kind, name=b(names[k]), letter=letter, rev=False, dflt=dflt, env=env, optional=rng.random() < 0.6))
        elif kind == "multi":
            dflt = [[b(rand_value(rng)) for _ in range(rng.randint(0, 2))]] if rng.random() < 0.4 else []
            decl.append(dict(kind=kind, name=b(names[k]), letter=letter, rev=False, dflt=dflt, env=env, optional=rng.random() < 0.6))
        else:
            decl.append(dict(kind=kind, name=b(names[k]), letter=letter, rev=rng.random() < 0.5,
                             dflt=[rng.choice([0, 0, 1, 3])], env=env, optional=False))
    return dict(decl=decl, allowed=rng.choice([-1, -1, 0, 1, 2, 3]), greedy=rng.random() < 0.3), nenv


def rand_env(rng, nenv):
    out = []
    for _ in range(nenv):
        r = rng.random()
        if r < 0.3:
            out.append("unset")
        elif r < 0.4:
            out.append([])
        elif r < 0.85:
            out.append(b(rng.choice(ENVVALS)))
        else:
            out.append(b(rbytes(rng, rng.randint(1, 8))))
    return out


def rand_argv(rng, cfg, profile):
    decl = cfg["decl"]
    toks = []
    tl = [chr(d["letter"]) for d in decl if d["kind"] == "toggle" and d["letter"]]
    ol = [chr(d["letter"]) for d in decl if d["kind"] != "toggle" and d["letter"]]
    und = [c for c in "zkw9" if ord(c) not in [d["letter"] for d in decl]]
    n = rng.choice([0, 1, 1, 2, 2, 3, 3, 4, 5, 7])
    long_p = profile.get("long", 0.0)
    while len(toks) < n:
        r = rng.random()
        d = rng.choice(decl)
        name = bytes(d["name"])
        if r < 0.22:        # long spelling
            if d["kind"] == "toggle":
                t = rng.choice([b"--" + name, b"--" + name, b"--no-" + name, b"--" + name + b"=1"])
                toks.append(t)
            else:
                v = rand_value(rng)
                if rng.random() < 0.5:
                    toks.append(b"--" + name + b"=" + v)
                else:
                    toks.append(b"--" + name)
                    if rng.random() < 0.85:
                        toks.append(v)
        elif r < 0.40 and d["letter"]:   # short spelling
            l = bytes([d["letter"]])
            if d["kind"] == "toggle":
                toks.append(b"-" + l * rng.choice([1, 1, 2, 3]))
            else:
                v = rand_value(rng)
                if rng.random() < 0.5:
                    toks.append(b"-" + l + b"=" + v)
                else:
                    toks.append(b"-" + l)
                    if rng.random() < 0.85:
                        toks.append(v)
        elif r < 0.55:      # bundles
            pool = tl * 3 + (und if rng.random() < 0.3 else []) + (ol if rng.random() < 0.3 else [])
            if pool:
                k = rng.randint(2, 4)
                t = "-" + "".join(rng.choice(pool) for _ in range(k))
                if rng.random() < 0.1:
                    t += "=1"
                toks.append(t.encode())
        elif r < 0.72:      # values / positionals
            toks.append(rand_value(rng))
        elif r < 0.78:
            toks.append(b"--")
        elif r < 0.86:      # undeclared
            toks.append(rng.choice([b"--zzz", b"--zzz=1", b"--no-zzz", b"-" + rng.choice(und).encode() if und else b"-9", b"--no-" + name + b"x", b"--" + name + b"x", b"--" + name[:-1] if len(name) > 1 else b"--q9"]))
        elif r < 0.93:      # malformed
            toks.append(rng.choice([b"-", b"---x", b"-=", b"--=x", b"-=x", b"---", b"--=", b"----", b"---" + name]))
        else:               # arbitrary bytes
            toks.append(rbytes(rng, rng.randint(1, 6), b"-=ao \nz\x80"))
    if rng.random() < profile.get("many", 0.012) and decl:
        # many repetitions: counts, list lengths and numbers of positionals beyond 127 / 255 (narrow counters)
        d = rng.choice(decl)
        name = bytes(d["name"])
        k = rng.choice([128, 200, 256, 257, 300])
        if d["kind"] == "toggle":
            l = bytes([d["letter"]]) if d["letter"] else b""
            form = rng.random()
            if l and form < 0.3:
                rep = [b"-" + l] * k
            elif l and form < 0.5:
                rep = [b"-" + l * k]
            elif l and form < 0.75:
                # a declared letter followed by many repetitions of an undeclared one / of an option's letter
                other = (und + ol) or ["9"]
                rep = [b"-" + l + rng.choice(other).encode() * k]
            else:
                rep = [b"--" + name] * k
        elif d["kind"] == "multi":
            rep = [b"--" + name + b"=" + str(i).encode() for i in range(k)]
        else:
            rep = [b"p%d" % i for i in range(k)]
        at = rng.randint(0, len(toks))
        toks[at:at] = rep
    if rng.random() < long_p and decl:
        # very long tokens (the regex / stack-depth cases)
        d = rng.choice(decl)
        name = bytes(d["name"])
        L = rng.choice([1000, 8000, 33000, 70000, 131072])
        kind = rng.random()
        if kind < 0.35 and d["kind"] != "toggle":
            t = b"--" + name + b"=" + b"a" * L
        elif kind < 0.55 and tl:
            t = b"-" + (tl[0].encode()) * L
        elif kind < 0.75:
            t = b"x" * L
        elif kind < 0.9:
            t = b"--" + b"q" * L
        else:
            t = b"---" + b"x" * L
        toks.insert(rng.randint(0, len(toks)), t)
    return [b(t) for t in toks]


NOWANT = dict(k="none", st=[], pos=[])


def is_value_tok(t):
    n = t.split(b"=", 1)[0]
    return n == b"" or n[0:1] != b"-"


def rand_rendering(rng, cfg):
    """A random assignment for cfg (no environment) and a random spelling of it -- the Python twin of
    OptRender.tla.  Returns (argv, expected result).  TLC checks through OptTrace that the vector spells
    the assignment (Meaning(argv) = want) and that the code parsed it back."""
    decl = cfg["decl"]
    items = []      # streams: list of lists (order inside a stream is kept)
    st = []
    for i, d in enumerate(decl):
        if d["kind"] == "opt":
            if rng.random() < 0.7 or (not d["optional"] and not d["dflt"]):
                v = rand_value(rng)
                items.append([("opt", i, v)])
                st.append(dict(val=[b(v)], list=[], count=0, prov=True))
            else:
                st.append(dict(val=[d["dflt"][0]] if d["dflt"] else [], list=[], count=0, prov=False))
        elif d["kind"] == "multi":
            k = rng.choice([0, 1, 2, 3]) if (d["optional"] or d["dflt"]) else rng.choice([1, 2, 3])
            vs = [rand_value(rng) for _ in range(k)]
            if vs:
                items.append([("opt", i, v) for v in vs])
                st.append(dict(val=[], list=[b(v) for v in vs], count=0, prov=True))
            else:
                st.append(dict(val=[], list=d["dflt"][0] if d["dflt"] else [], count=0, prov=False))
        else:
            k = rng.choice([0, 0, 1, 2, 3])
            for _ in range(k):
                items.append([("tog", i, None)])
            st.append(dict(val=[], list=[], count=k if k else d["dflt"][0], prov=k > 0))
    npos = 0 if cfg["allowed"] == 0 else rng.randint(0, 3 if cfg["allowed"] < 0 else cfg["allowed"])
    pos = [rand_value(rng) for _ in range(npos)]
    posq = list(pos)
    argv = []
    dd = False
    greedy = cfg["greedy"]
    while items or posq:
        choices = list(range(len(items)))
        can_inline = posq and not dd and is_value_tok(posq[0]) and (not greedy or not items)
        if posq and not items and not dd and (rng.random() < 0.3 or not is_value_tok(posq[0])) and (not greedy or len(posq) == len(pos)):
            argv.append(b"--")
            dd = True
            continue
        if dd or (can_inline and (not items or rng.random() < 0.3)):
            if dd or can_inline:
                argv.append(posq.pop(0))
                continue
        if not items:
            # a positional that cannot be spelled inline and "--" is not possible any more (greedy): spell via "--" first
            if not dd and (not greedy or len(posq) == len(pos)):
                argv.append(b"--")
                dd = True
                continue
            return None
        si = rng.choice(choices)
        kind, i, v = items[si].pop(0)
        if not items[si]:
            items.pop(si)
        d = decl[i]
        name = bytes(d["name"])
        letter = bytes([d["letter"]]) if d["letter"] else None
        if kind == "opt":
            forms = ["leq"]
            if is_value_tok(v):
                forms.append("lnext")
            if letter:
                forms.append("seq")
                if is_value_tok(v):
                    forms.append("snext")
            f = rng.choice(forms)
            if f == "leq":
                argv.append(b"--" + name + b"=" + v)
            elif f == "lnext":
                argv += [b"--" + name, v]
            elif f == "seq":
                argv.append(b"-" + letter + b"=" + v)
            else:
                argv += [b"-" + letter, v]
        else:
            if letter and rng.random() < 0.6:
                tok = b"-" + letter
                # bundle further pending toggle occurrences that have letters
                k = 0
                while k < len(items) and rng.random() < 0.5:
                    if items[k][0][0] == "tog" and decl[items[k][0][1]]["letter"]:
                        tok += bytes([decl[items[k][0][1]]["letter"]])
                        items.pop(k)
                    else:
                        k += 1
                argv.append(tok)
            else:
                argv.append(b"--" + name)
    return [b(t) for t in argv], dict(k="some", st=st, pos=[b(p) for p in pos])


def record_and_validate(chk, exe, n_parsers, profile, calls_per_parser=(1, 1)):
    rng = random.Random("%s/%s" % (chk.seed, chk.pid))
    dcases = []
    for _ in range(n_parsers):
        cfg, nenv = rand_cfg(rng, profile)
        env = rand_env(rng, nenv)
        k = rng.randint(*calls_per_parser)
        if profile.get("render"):
            calls, wants = [], []
            for _ in range(k):
                r = rand_rendering(rng, cfg)
                if r is None:
                    continue
                calls.append(r[0])
                wants.append(r[1])
            if calls:
                dcases.append(dict(cfg=cfg, env=env, calls=calls, want=wants))
        else:
            dcases.append(dict(cfg=cfg, env=env, calls=[rand_argv(rng, cfg, profile) for _ in range(k)]))
        d = dcases[-1] if dcases else None
        if d is not None and nenv and len(d["calls"]) > 1 and len(dcases) % 3 == 0:
            # the application changes the environment between the calls (ChangeEnv)
            d["envs"] = [env] + [rand_env(rng, nenv) for _ in d["calls"][1:]]
    for k, d in enumerate(dcases):
        d["via"] = "inputs" if (k % 4 == 3 and not profile.get("long")) else "argv"
    for k, d in enumerate(dcases):
        d["moved"] = (k % 5 == 2)        # every fifth parser is moved (constructed / assigned) before each call
    def dc(d):
        x = dict(cfg=d["cfg"], env=d["env"], calls=d["calls"], via=d["via"], moved=d["moved"])
        if "envs" in d:
            x["envs"] = d["envs"]
        return x
    obs = vc.run_cases(exe, [dc(d) for d in dcases], chk.out, "record", per_case_timeout=10)
    execs = []
    meta = []
    for d, o in zip(dcases, obs):
        if o.get("outcome") == "skipped":
            continue
        calls = o.get("calls") if o.get("outcome") == "ok" else o.get("steps", [])
        evs = []
        for k, av in enumerate(d["calls"]):
            tenv = [[] if e == "unset" else e for e in (d["envs"][k] if "envs" in d else d["env"])]
            if k < len(calls):
                g = calls[k]
                oc = "ok" if g["oc"] == "ok" else ("error" if g["oc"] == "parsing_error" else g["oc"])
                ev = dict(e="Parse", cfg=d["cfg"], env=tenv, argv=av, oc=oc, via=d["via"],
                          st=strip_st(g["st"]) if oc == "ok" else [], pos=g["pos"] if oc == "ok" else [],
                          want=d.get("want", [NOWANT] * len(d["calls"]))[k])
                if oc == "ok":
                    e2 = check_get(g["pos"], g["get"]) or check_typed(g["st"]) or (None if g["consistent"] else "accessors disagree")
                    if e2:
                        chk.diverge("Access", "wrong-access", dict(cfg=d["cfg"], env=d["env"], calls=d["calls"][:k + 1]), e2)
            else:
                ev = dict(e="Parse", cfg=d["cfg"], env=tenv, argv=av, oc=str(o.get("outcome")), st=[], pos=[], via=d["via"],
                          want=d.get("want", [NOWANT] * len(d["calls"]))[k])
                evs.append(ev)
                break
            evs.append(ev)
        execs.append(evs)
        meta.append((d, o))
    # long tokens make huge lines: keep batches small in bytes
    rej, st = vc.validate_trace("options/OptTrace", "options/OptTrace.cfg", execs, chk.out, "trace",
                                batch=profile.get("batch", 1500), xmx="6g", timeout=1500)
    chk.states += st["states"]
    chk.transitions += st["states"]
    chk.recorded += len(execs) - st["unexamined"]
    if st["unexamined"]:
        chk.notes.append("%d recorded executions not examined (too many rejections in their batch)" % st["unexamined"])
    for k, matched, path, why in rej:
        d, o = meta[k]
        ev = execs[k][min(matched, len(execs[k]) - 1)]
        wit = dict(cfg=d["cfg"], env=d["env"], calls=d["calls"][:matched + 1], via=d["via"], moved=d["moved"])
        if "envs" in d:
            wit["envs"] = d["envs"][:matched + 1]
        observed = ev["oc"] if ev["oc"] not in ("ok", "error") else ("accepted" if ev["oc"] == "ok" else "rejected")
        chk.diverge(("Reparse/" if matched > 0 else "") + "Trace", observed, wit,
                    "recorded parse call %d rejected by OptTrace (%s): argv=%s env=%s decl=%s -> %s %s" % (
                        matched + 1, why, show_argv(ev["argv"]), [_s(e) for e in ev["env"]],
                        [vc.ub(x["name"]) + ":" + x["kind"] + ("/" + chr(x["letter"]) if x["letter"] else "") for x in d["cfg"]["decl"]],
                        ev["oc"], summarize(d["cfg"], ev["st"]) if ev["st"] else ""), artefact=path)
    if execs:
        e0 = execs[0][0]
        chk.sample(dict(kind="code->spec event", argv=show_argv(e0["argv"]), oc=e0["oc"], pos=[_s(p) for p in e0["pos"]]))


# ------------------------------------------------------------------------------------------------

PLAN = {
    # pid: (models quick, models thorough, random profile, parsers quick, parsers thorough, calls per parser)
    # every option check also replays the history model MC_Opt_C14: what a property says about "parsing" holds for every
    # call on a parser object, not only the first one
    "C01": (["MC_Opt_C01_quick", "MC_Opt_C14_quick", "MC_Opt_C14decl_quick"], ["MC_Opt_C01_thorough", "MC_Opt_C14_quick", "MC_Opt_C14decl_thorough"], dict(env=0.0, long=0.0), 3000, 40000, (1, 3)),
    "C02": (["MC_Opt_C02_quick", "MC_Opt_C14_quick"], ["MC_Opt_C02_thorough", "MC_Opt_C14_quick"], dict(env=0.0, render=True), 3000, 40000, (1, 2)),
    "C03": (["MC_Opt_C03", "MC_Opt_C14_quick", "MC_Opt_C14env_quick"], ["MC_Opt_C03", "MC_Opt_C14_thorough", "MC_Opt_C14env_thorough"], dict(env=0.9), 3000, 40000, (1, 3)),
    # C04 also replays the re-parse histories: "the error is raised exactly when ..." must hold for every call, not only the first
    "C04": (["MC_Opt_C04_quick", "MC_Opt_C14_quick", "MC_Opt_C11b", "MC_Opt_Live"], ["MC_Opt_C04_thorough", "MC_Opt_C03", "MC_Opt_C14_quick", "MC_Opt_C11b", "MC_Opt_Live"],
            dict(env=0.3, long=0.03, batch=400), 3000, 30000, (1, 3)),
    "C11": (["MC_Opt_C11a_quick", "MC_Opt_C11b", "MC_Opt_C11c", "MC_Opt_C14_quick"], ["MC_Opt_C11a_thorough", "MC_Opt_C11b", "MC_Opt_C11c", "MC_Opt_C14_quick"], dict(env=0.6, toggles=True), 3000, 40000, (1, 3)),
    "C12": (["MC_Opt_C12_quick", "MC_Opt_C14_quick"], ["MC_Opt_C12_thorough", "MC_Opt_C14_quick"], dict(env=0.0, positional=True), 3000, 40000, (1, 3)),
    "C14": (["MC_Opt_C14_quick", "MC_Opt_C14env_quick", "MC_Opt_C14decl_quick"], ["MC_Opt_C14_thorough", "MC_Opt_C14env_thorough", "MC_Opt_C14decl_thorough"], dict(env=0.3), 1500, 15000, (2, 6)),
}

ASSUME = ["the declaration given to the driver is the one the model describes (built through the public declaration API)",
          "environment variables NITRO_VERIF_E* are private to the driver", "tokens contain no NUL byte (argv strings)",
          "sanitizer build behaves like a plain build apart from detection"]


def run(chk, replay):
    exe = build()
    if replay:
        d = json.load(open(replay))
        w = d["witness"]
        obs = vc.run_cases(exe, [w], chk.out, "replay1")
        print("replayed witness:", json.dumps(w)[:2000])
        print("observation:", json.dumps(obs[0])[:2000])
        chk.states = chk.transitions = 1
        chk.replayed = 1
        chk.sample(dict(kind="replayed witness", observation=obs[0]))
        chk.notes.append("replay mode: prints the observation for the stored witness; the verdict comes from the full check")
        return
    quick, thorough, profile, nq, nt, cpp = PLAN[chk.pid]
    for m in (thorough if chk.thorough() else quick):
        if m == "MC_Opt_Live":
            # temporal formula only (every parse call that starts ends): nothing to export
            r = vc.run_tlc("options/" + m, "options/" + m + ".cfg", timeout=1500)
            chk.add_tlc(m, r)
            if not r["ok"]:
                chk.model_violation(m, r)
            continue
        replay_model(chk, exe, m, variants=(0, 1) if chk.pid in ("C03", "C11") else (0,))
    chk.exhaustive = True
    record_and_validate(chk, exe, nt if chk.thorough() else nq, profile, cpp)
    chk.bounds["models"] = thorough if chk.thorough() else quick
    chk.assumptions += ASSUME
