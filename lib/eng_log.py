"""C05 / C10: Log.tla <-> log_driver (one executable per compile-time minimum severity)."""
import json
import os
import random
from concurrent.futures import ThreadPoolExecutor

import tour
import vcommon as vc

SEVNAMES = ["trace", "debug", "info", "warn", "error", "fatal"]
NS = {1: 3, 2: 3, 3: 3, 4: 1, 5: 2, 6: 1, 7: 2, 8: 1, 9: 1}
KTEXT = {"s": "s", "c": "c", "i": "1"}       # model item kind -> text the driver streams for it


def build_all(mins):
    """One executable per compile-time minimum, plus two more builds of the same driver: one by g++ (the compiler of the
    project's own build: order of evaluation, overload resolution) and one that defines the minimum in the source after
    other nitro/log headers.  Returns {minimum: [executables]}; every one must behave as the model of its minimum."""
    import shutil
    jobs = [(m, "log_driver_min%d" % m, ["-DNITRO_LOG_MIN_SEVERITY=" + SEVNAMES[m]], None) for m in mins]
    jobs.append((2, "log_driver_late_min2", ["-DVERIF_LATE_MIN=" + SEVNAMES[2]], None))
    if shutil.which("g++") and vc.CXX != "g++":
        jobs.append((0, "log_driver_gxx_min0", ["-DNITRO_LOG_MIN_SEVERITY=" + SEVNAMES[0]], "g++"))
    def one(j):
        # the six regular builds must compile; the two extra ones are optional (skipped with a log line if they do not)
        if j[1].startswith("log_driver_min"):
            return vc.build_driver(j[1], ["log_driver.cpp"], flags=j[2], cxx=j[3])
        r = vc.build_driver(j[1], ["log_driver.cpp"], flags=j[2], cxx=j[3], allow_fail=True)
        if r[0] is None:
            vc.log("%s does not compile against this tree, left out: %s" % (j[1], " ".join(l for l in r[1].splitlines() if "error" in l)[:300]))
        return r[0]
    with ThreadPoolExecutor(max_workers=8) as ex:
        built = list(ex.map(one, jobs))
    exes = {}
    for j, e in zip(jobs, built):
        if e is not None:
            exes.setdefault(j[0], []).append(e)
    return exes


def concrete_item(kind):
    if kind == "i":
        return dict(t="i", v=1)
    return dict(t=kind, v=KTEXT[kind])


_rot = [0]


def to_step(act):
    a = act["args"]
    op = act["op"]
    if op == "SetThr":
        return dict(op=op, i=a[0], v=a[1])
    if op == "Expr":
        return dict(op=op, sev=a[0], tag=a[1], items=[concrete_item(k) for k in a[2]])
    if op == "Begin":
        return dict(op=op, slot=a[0], sev=a[1], tag=a[2])
    if op == "Stream":
        it = concrete_item(a[1])
        if it["t"] == "c":
            # the model's callable is, in turn, a functor, a std::function, a function pointer and a function passed by name
            _rot[0] += 1
            it = dict(it, t="cfpn"[_rot[0] % 4])
        return dict(op=op, slot=a[0], item=it)
    if op == "Move":
        return dict(op=op, slot=a[0], to=a[1])
    return dict(op=op, slot=a[0])


def rec_str(r, model=True):
    msg = "".join(KTEXT[ch] for ch in r["msg"]) if model else r["msg"]
    return "%d|%s|%s" % (r["sev"], "tg" if r["tag"] else "-", msg)


def cmp_effect(eff, g, model=True):
    """eff: spec effect; g: observed step. Returns (kind, text) or None."""
    if eff["kind"] != g["kind"]:
        return "stream-type", "stream type %r, specification %r" % (g["kind"], eff["kind"])
    want_fmt = [rec_str(r, model) for r in eff["fmt"]]
    if g["fmt"] != want_fmt:
        if not want_fmt:
            return "formatter-called-for-disabled", "formatter received %s, specification: nothing" % g["fmt"]
        return ("lost" if not g["fmt"] else ("duplicated" if len(g["fmt"]) > 1 else "altered")), "formatter received %s, specification %s" % (g["fmt"], want_fmt)
    want_s = [dict(sink=x["sink"], sev=x["rec"]["sev"], rec=rec_str(x["rec"], model)) for x in eff["sinks"]]
    if g["sinks"] != want_s:
        if not want_s:
            return "sink-called-for-disabled", "sink received %s, specification: nothing" % g["sinks"]
        return "sink-delivery", "sinks received %s, specification %s" % (g["sinks"], want_s)
    if g["called"] != eff["called"]:
        return "lazy-evaluation", "%d callables evaluated, specification %d" % (g["called"], eff["called"])
    return None


PROPS = {"stream-type": {"C10"}, "formatter-called-for-disabled": {"C05", "C10"}, "sink-called-for-disabled": {"C05", "C10"},
         "lost": {"C05"}, "duplicated": {"C05"}, "altered": {"C05"}, "sink-delivery": {"C05"}, "lazy-evaluation": {"C10"},
         "crash": {"C05", "C10"}, "timeout": {"C05", "C10"}, "late-delivery": {"C05"}}


def add_div(chk, kind, where, wit, text):
    if chk.pid in PROPS.get(kind, {"C05", "C10"}):
        chk.diverge(where, kind, wit, text)


def replay_model(chk, exes, cfgfile, tag):
    r = vc.run_tlc("log/MC_Log", "log/" + cfgfile, timeout=3000, xmx="16g")
    chk.add_tlc(cfgfile, r)
    if not r["ok"]:
        chk.model_violation(cfgfile, r)
        return
    g = tour.Graph()
    g.add_all(r["lines"]["EDGE"])
    roots = sorted(set(u for (u, a, v, to) in g.edges if json.loads(u)["thr"] == [0, 0, 0] and all(s["st"] == "free" for s in json.loads(u)["slot"])))
    by_min = {}
    npaths = ncov = 0
    for root in roots:
        cid = json.loads(root)["cfg"]
        m, fx = cid // 10, cid % 10
        paths, cov, unreach = g.tours(root, max_len=40)
        ncov += cov
        npaths += len(paths)
        for p in paths:
            by_min.setdefault(m, []).append((fx, p))
    for m, lst in sorted(by_min.items()):
        cases = [dict(fx=fx, steps=[to_step(g.edges[i][1]) for i in p]) for fx, p in lst]
        for bi, exe in enumerate(exes[m]):
            obs = vc.run_cases(exe, cases, chk.out, "%s_min%d_%d" % (tag, m, bi), per_case_timeout=10)
            for (fx, p), c, o in zip(lst, cases, obs):
                if o.get("outcome") == "skipped":
                    continue
                steps = o.get("steps", [])
                for k, idx in enumerate(p):
                    act = g.edges[idx][1]
                    wit = dict(min=m, build=bi, fx=fx, steps=c["steps"][:k + 1])
                    if k >= len(steps):
                        add_div(chk, o.get("outcome", "crash"), act["op"], wit, "[%s] min=%s filter #%d step %d %s: %s" % (os.path.basename(exe), SEVNAMES[m], fx, k + 1, c["steps"][k], o.get("outcome")))
                        break
                    rr = cmp_effect(act["eff"], steps[k])
                    if rr:
                        add_div(chk, rr[0], act["op"], wit, "[%s] compile-time minimum %s, filter #%d, thresholds/program %s: %s" % (
                            os.path.basename(exe), SEVNAMES[m], fx, [json.dumps(s, separators=(",", ":")) for s in c["steps"][max(0, k - 3):k + 1]], rr[1]))
                        break
                else:
                    alive = sum(1 for sl in g.edges[p[-1]][3]["slot"] if sl["st"] == "live" and sl["owns"]) if p else 0
                    if o.get("late", 0) != alive:
                        add_div(chk, "late-delivery", "End", dict(min=m, build=bi, fx=fx, steps=c["steps"]),
                                "%d records were delivered when the remaining stream objects were destroyed, specification %d" % (o.get("late", 0), alive))
            chk.replayed += len(cases)
    chk.notes.append("%s: %d paths cover %d of %d edges over %d logger configurations" % (tag, npaths, ncov, len(g.edges), len(roots)))
    if by_min:
        m, lst = sorted(by_min.items())[len(by_min) // 2]
        fx, p = lst[len(lst) // 2]
        chk.sample(dict(kind="spec->code tour path", min=SEVNAMES[m], filter=fx, steps=[to_step(g.edges[i][1]) for i in p][:8]))


# ------------------------------------------------------------------------------------------------


def gen_program(rng, n):
    """Random program; a small mirror only tracks which slots are alive so that calls are well-formed."""
    steps = []
    alive = {}
    for _ in range(n):
        r = rng.random()
        def item(k, named=False):
            t = rng.choice("sssiccfpn" if named else "sssicc")     # std::function / function pointer only through named streams
            return dict(t=t, v=(rng.randint(0, 999) if t == "i" else rng.choice(["a", "b.", " x ", "", "{}", "|", "\n", "zz"]) + str(k)))
        if r < 0.15 and not alive:
            steps.append(dict(op="SetThr", i=rng.randint(1, 3), v=rng.randint(0, 5)))
        elif r < 0.5:
            steps.append(dict(op="Expr", sev=rng.randint(0, 5), tag=rng.randint(0, 1), items=[item(k) for k in range(rng.randint(0, 3))]))
        elif r < 0.65 and len(alive) < 3:
            s = rng.choice([k for k in (1, 2, 3) if k not in alive])
            alive[s] = 0
            steps.append(dict(op="Begin", slot=s, sev=rng.randint(0, 5), tag=rng.randint(0, 1)))
        elif r < 0.88 and alive:
            s = rng.choice(sorted(alive))
            if alive[s] < 6:
                alive[s] += 1
                steps.append(dict(op="Stream", slot=s, item=item(alive[s], named=True)))
        elif alive and r < 0.93 and len(alive) < 3:
            s = rng.choice(sorted(alive))
            t = rng.choice([k for k in (1, 2, 3) if k not in alive])
            alive[t] = alive.pop(s)
            steps.append(dict(op="Move", slot=s, to=t))
        elif alive:
            s = rng.choice(sorted(alive))
            del alive[s]
            steps.append(dict(op="End", slot=s))
    for s in sorted(alive):
        steps.append(dict(op="End", slot=s))
    return steps


def parse_rec(s):
    sev, tag, msg = s.split("|", 2)
    return dict(sev=int(sev), tag=0 if tag == "-" else 1, msg=msg)


def record(chk, exes, n):
    rng = random.Random("%s/%s" % (chk.seed, chk.pid))
    builds = sorted((m, bi) for m in exes for bi in range(len(exes[m])))
    by_min = {b: [] for b in builds}
    for k in range(n):
        b = rng.choice(builds)
        by_min[b].append(dict(fx=rng.randint(1, 9), steps=gen_program(rng, rng.randint(3, 30))))
    execs, meta = [], []
    for (m, bi), cases in by_min.items():
        obs = vc.run_cases(exes[m][bi], cases, chk.out, "record_min%d_%d" % (m, bi), per_case_timeout=10)
        for c, o in zip(cases, obs):
            if o.get("outcome") == "skipped":
                continue
            evs = [dict(e="Reset", min=m, fx=c["fx"])]
            steps = o.get("steps", [])
            for k, s in enumerate(c["steps"]):
                op = s["op"]
                args = {"SetThr": lambda: [s["i"], s["v"]], "Expr": lambda: [s["sev"], s["tag"], s["items"]],
                        "Begin": lambda: [s["slot"], s["sev"], s["tag"]], "Stream": lambda: [s["slot"], s["item"]],
                        "End": lambda: [s["slot"]], "Move": lambda: [s["slot"], s["to"]]}[op]()
                if k >= len(steps):
                    # the process died in this statement: an event no action of the specification explains
                    evs.append(dict(e=op, args=args, kind=str(o.get("outcome")), fmt=[], sinks=[], called=0))
                    break
                g = steps[k]
                try:
                    fmt = [parse_rec(x) for x in g["fmt"]]
                    sinks = [dict(sink=x["sink"], rec=parse_rec(x["rec"])) for x in g["sinks"]]
                    if any(x["sev"] != parse_rec(x["rec"])["sev"] for x in g["sinks"]):
                        raise ValueError("severity passed to the sink differs from the record's")
                except ValueError as e:
                    add_div(chk, "altered", op, dict(min=m, build=bi, fx=c["fx"], steps=c["steps"][:k + 1]), "unparsable / inconsistent record: %s %s" % (g, e))
                    break
                evs.append(dict(e=op, args=args, kind=g["kind"], fmt=fmt, sinks=sinks, called=g["called"]))
            if o.get("outcome") == "ok" and o.get("late"):
                add_div(chk, "late-delivery", "End", dict(min=m, build=bi, fx=c["fx"], steps=c["steps"]), "record delivered after the program ended")
            execs.append(evs)
            meta.append((m, bi, c))
    # each execution carries its own Reset event with the configuration
    rej, st = vc.validate_trace("log/LogTrace", "log/LogTrace.cfg", execs, chk.out, "trace", batch=3000)
    chk.states += st["states"]
    chk.transitions += st["states"]
    chk.recorded += len(execs) - st["unexamined"]
    for k, matched, path, why in rej:
        m, bi, c = meta[k]
        # validate_trace writes its own Reset line first: event index `matched` counts from it
        ev = execs[k][min(matched + 1, len(execs[k]) - 1)]      # execs[k][0] is the Reset event
        add_div(chk, "trace-rejected", ev["e"], dict(min=m, build=bi, fx=c["fx"], steps=c["steps"]),
                "[" + os.path.basename(exes[m][bi]) + "] recorded statement %d rejected by LogTrace (%s): min=%s filter #%d %s%s -> kind=%s fmt=%s sinks=%s called=%s" % (
                    matched, why, SEVNAMES[m], c["fx"], ev["e"], json.dumps(ev["args"]), ev["kind"], ev["fmt"], [x["sink"] for x in ev["sinks"]], ev["called"]))
    if execs:
        chk.sample(dict(kind="code->spec events", events=execs[0][:4]))


def run(chk, replay_path):
    exes = build_all(list(range(6)))
    if replay_path:
        d = json.load(open(replay_path))
        w = d["witness"]
        obs = vc.run_cases(exes[w["min"]][w.get("build", 0)], [dict(fx=w["fx"], steps=w["steps"])], chk.out, "replay1")
        print("replayed witness:", json.dumps(w))
        print("observation:", json.dumps(obs[0])[:3000])
        chk.states = chk.transitions = chk.replayed = 1
        chk.sample(dict(kind="replayed witness", observation=obs[0]))
        return
    replay_model(chk, exes, "MC_Log_gate.cfg", "gate")
    replay_model(chk, exes, "MC_Log_stmt_%s.cfg" % chk.tier, "stmt")
    chk.exhaustive = True
    chk.bounds["gate model"] = "6 compile-time minima x 9 filter expressions (8 over thresholds, one with a user-written tag filter) x all thresholds 0..5 of three threshold filters x 6 severities x tag"
    chk.bounds["statement model"] = "named stream objects (2 alive at once) and expression statements, up to 2 items over string/integer/callable"
    record(chk, exes, 1500 if chk.tier == "quick" else 20000)
    chk.bounds["builds"] = {SEVNAMES[m]: [os.path.basename(e) for e in lst] for m, lst in exes.items()}
    chk.assumptions += ["the recording sink, formatter and callables are template/streamed arguments of the logger: what they receive is what the library passes",
                        "thresholds are only changed between statements", "single thread (C09 covers concurrency)"]
