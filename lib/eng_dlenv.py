"""C19: DlEnv.tla <-> dlenv_driver (dlopen/dlclose wrapped at link time)."""
import json
import os
import random
import subprocess

import tour
import vcommon as vc


def build():
    exe = vc.build_driver("dlenv_driver", ["dlenv_driver.cpp"], nitro_sources=["src/env/get.cpp"],
                          ldflags=["-Wl,--wrap=dlopen", "-Wl,--wrap=dlclose", "-ldl"])
    bdir = os.path.dirname(exe)
    libs = {}
    src = os.path.join(vc.HARNESS, "verif_lib.cpp")
    for name in ("L1", "L2"):
        so = os.path.join(bdir, "libverif_%s.so" % name.lower())
        if not os.path.exists(so) or os.path.getmtime(so) < os.path.getmtime(src):
            p = subprocess.run([vc.CXX, "-shared", "-fPIC", "-O1", "-DVERIF_LIB=" + name[1], src, "-o", so], capture_output=True, text=True)
            if p.returncode != 0:
                raise vc.Infra("cannot build test library: " + p.stderr[-1000:])
        libs[name] = so
    libs["missing"] = os.path.join(bdir, "libverif_does_not_exist.so")
    return exe, libs


def expect_libs(to):
    per = {}
    for lib in ("L1", "L2"):
        per[lib] = dict(opens=sum(1 for i in to["inst"] if i["lib"] == lib), closes=sum(1 for i in to["inst"] if i["lib"] == lib and i["closes"] == 1))
    return per


def cmp_step(act, to, g):
    if g["out"] != act["out"]:
        return ("missing-raise" if act["out"] != "ok" else "unexpected-" + g["out"]), "%s%s: outcome %s, specification %s (%s)" % (act["op"], act["args"], g["out"], act["out"], g.get("what", ""))
    if act["out"] == "dl_exception" and not g.get("diag"):
        return "no-diagnostic", "%s%s: the dl exception does not carry the loader's diagnostic of this failure (at once %r, after another loader failure %r)" % (
            act["op"], act["args"], vc.ub(g.get("diag_text", [])), vc.ub(g.get("diag_later", [])))
    if act["out"] == "ok" and g["val"] != act["val"]:
        return "wrong-value", "%s%s returned %r, specification %r" % (act["op"], act["args"], g["val"], act["val"])
    if g["kinds"] != [h["kind"] for h in to["holder"]]:
        return "wrong-holders", "after %s%s: holders %s, specification %s" % (act["op"], act["args"], g["kinds"], [h["kind"] for h in to["holder"]])
    want = expect_libs(to)
    for lib in ("L1", "L2"):
        got = g["libs"].get(lib, dict(opens=0, closes=0))
        if got != want[lib]:
            kind = "closed-while-held" if got["closes"] > want[lib]["closes"] else ("not-closed" if got["closes"] < want[lib]["closes"] else "open-count")
            return kind, "after %s%s: library %s opened %d / closed %d times, specification %d / %d" % (act["op"], act["args"], lib, got["opens"], got["closes"], want[lib]["opens"], want[lib]["closes"])
    if g["stray_closes"]:
        return "closed-twice", "after %s%s: dlclose on a handle that was never opened here" % (act["op"], act["args"])
    return None


def replay(chk, exe, libs, cfg, nh, tag, names):
    r = vc.run_tlc("dlenv/DlEnv", "dlenv/" + cfg, timeout=1500)
    chk.add_tlc(cfg, r)
    if not r["ok"]:
        chk.model_violation(cfg, r)
        return
    g = tour.Graph()
    g.add_all(r["lines"]["EDGE"])
    root = json.dumps(dict(env=({n: "<unset>" for n in names} if names else []), holder=[dict(kind="none", inst=0, sym="")] * nh, inst=[]), separators=(",", ":"), sort_keys=True)
    paths, ncov, unreach = g.tours(root, max_len=30)
    cases = [dict(libs=libs, nh=nh, steps=[dict(op="UnsetEnv", args=[n]) for n in names] + [dict(op=g.edges[i][1]["op"], args=g.edges[i][1]["args"]) for i in p]) for p in paths]
    obs = vc.run_cases(exe, cases, chk.out, tag, per_case_timeout=10, env={"NV_A": "inherited"})
    skip = len(names)
    for p, c, o in zip(paths, cases, obs):
        if o.get("outcome") == "skipped":
            continue
        steps = o.get("steps", [])[skip:]
        ok = True
        for k, idx in enumerate(p):
            u, act, v, to = g.edges[idx]
            wit = dict(libs=libs, nh=nh, steps=c["steps"][:skip + k + 1])
            hist = ["%s%s" % (s["op"], s["args"]) for s in c["steps"][skip:skip + k + 1]][-7:]
            if k >= len(steps):
                chk.diverge(act["op"], o.get("outcome", "crash"), wit, "history %s: %s (%s)" % (hist, o.get("outcome"), o.get("why")))
                ok = False
                break
            rr = cmp_step(act, to, steps[k])
            if rr:
                chk.diverge(act["op"], rr[0], wit, "history %s: %s" % (hist, rr[1]))
                ok = False
                break
        if ok and o.get("outcome") == "ok" and o["end_unbalanced"]:
            chk.diverge("Destroy", "not-closed", dict(libs=libs, nh=nh, steps=c["steps"]), "after all holders were destroyed %d handles have unbalanced dlopen/dlclose counts" % o["end_unbalanced"])
    if not paths:
        raise vc.Infra("no tour path for %s (root state not found in the exported graph)" % cfg)
    chk.replayed += len(paths)
    chk.notes.append("%s: %d paths cover %d of %d edges" % (tag, len(paths), ncov, len(g.edges)))
    if paths:
        chk.sample(dict(kind="spec->code tour path", steps=["%s%s" % (g.edges[i][1]["op"], g.edges[i][1]["args"]) for i in paths[len(paths) // 2]][:12]))


def gen(rng, n):
    steps = []
    kinds = ["none"] * 4
    libof = [""] * 4          # which library the dl object / symbol in a slot belongs to (generator's own mirror)
    vals = ["", "x", "a b", "=;", "\t", "\xe4\xf6", "--x", "very " * 20, "\x01\x7f", "L" * 255, "M" * 256, "long " * 1000]
    for _ in range(n):
        r = rng.random()
        h = rng.randint(1, 4)
        if r < 0.3:
            nme = rng.choice(["NV_A", "NV_B", "NV_LONG_" + "X" * 20])
            rr = rng.random()
            if rr < 0.4:
                steps.append(dict(op="SetEnv", args=[nme, rng.choice(vals)]))
            elif rr < 0.55:
                steps.append(dict(op="UnsetEnv", args=[nme]))
            elif rr < 0.8:
                steps.append(dict(op="Get", args=[nme, rng.choice(["", "dflt", "x"])]))
            else:
                steps.append(dict(op="GetNoDefault", args=[nme]))
        elif kinds[h - 1] == "none":
            others = [i + 1 for i, k in enumerate(kinds) if k != "none"]
            dls = [i + 1 for i, k in enumerate(kinds) if k == "dl"]
            rr = rng.random()
            if rr < 0.4 or not others:
                lib = rng.choice(["L1", "L1", "L2", "missing"])
                steps.append(dict(op="Open", args=[h, lib]))
                if lib != "missing":
                    kinds[h - 1] = "dl"
                    libof[h - 1] = lib
            elif rr < 0.7 and dls:
                d = rng.choice(dls)
                nm = rng.choice(["common", "common", "own_L1", "own_L2", "nowhere"])
                steps.append(dict(op="Load", args=[h, d, nm]))
                if nm == "common" or nm == "own_" + libof[d - 1]:
                    kinds[h - 1] = "sym"
                    libof[h - 1] = libof[d - 1]
            else:
                g = rng.choice(others)
                steps.append(dict(op="Copy", args=[h, g]))
                kinds[h - 1] = kinds[g - 1]
                libof[h - 1] = libof[g - 1]
        else:
            same = [i + 1 for i, k in enumerate(kinds) if k == kinds[h - 1] and i + 1 != h]
            if same and rng.random() < 0.3:
                g = rng.choice(same)
                if rng.random() < 0.5:
                    steps.append(dict(op="AssignCopy", args=[h, g]))
                else:
                    steps.append(dict(op="AssignMove", args=[h, g]))
                    kinds[g - 1] = "none"
                libof[h - 1] = libof[g - 1]
            elif kinds[h - 1] == "sym" and rng.random() < 0.5:
                steps.append(dict(op="Call", args=[h]))
            else:
                steps.append(dict(op="Destroy", args=[h]))
                kinds[h - 1] = "none"
    return steps


def run(chk, replay_path):
    exe, libs = build()
    if replay_path:
        d = json.load(open(replay_path))
        w = dict(d["witness"], libs=libs)
        obs = vc.run_cases(exe, [w], chk.out, "replay1")
        print("replayed witness:", json.dumps(w))
        print("observation:", json.dumps(obs[0])[:3000])
        chk.states = chk.transitions = chk.replayed = 1
        chk.sample(dict(kind="replayed witness", observation=obs[0]))
        return
    replay(chk, exe, libs, "MC_DlEnv_env.cfg", 1, "tour_env", ["NV_A", "NV_B"])
    replay(chk, exe, libs, "MC_DlEnv_dl%s.cfg" % ("_thorough" if chk.thorough() else ""), 4 if chk.thorough() else 3, "tour_dl", [])
    chk.exhaustive = True
    chk.bounds["models"] = "environment: 2 names x values {'', 'x', ' sp =; '} x defaults; loader: 2 libraries (a common symbol, one own symbol each) + a missing one, symbol names {common, own_L1, own_L2, nowhere}, %d holder slots, up to %d successful opens" % ((4, 3) if chk.thorough() else (3, 2))
    rng = random.Random("%s/C19" % chk.seed)
    names = ["NV_A", "NV_B", "NV_LONG_" + "X" * 20]
    rc = [dict(libs=libs, nh=4, steps=[dict(op="UnsetEnv", args=[n]) for n in names] + gen(rng, rng.randint(5, 40))) for _ in range(500 if chk.tier == "quick" else 6000)]
    robs = vc.run_cases(exe, rc, chk.out, "record", per_case_timeout=10)
    execs, meta = [], []
    for c, o in zip(rc, robs):
        if o.get("outcome") == "skipped":
            continue
        evs = []
        steps = o.get("steps", [])
        for k, s in enumerate(c["steps"]):
            if k >= len(steps):
                evs.append(dict(e=s["op"], args=s["args"], out=str(o.get("outcome")), val="", kinds=[], l1o=0, l1c=0, l2o=0, l2c=0, stray=0, diag=False))
                break
            x = steps[k]
            evs.append(dict(e=s["op"], args=s["args"], out=x["out"], val=x["val"] if x["out"] == "ok" else "", kinds=x["kinds"],
                            l1o=x["libs"]["L1"]["opens"], l1c=x["libs"]["L1"]["closes"], l2o=x["libs"]["L2"]["opens"], l2c=x["libs"]["L2"]["closes"],
                            stray=x["stray_closes"], diag=bool(x.get("diag", False))))
        execs.append(evs)
        meta.append(c)
    rej, st = vc.validate_trace("dlenv/DlEnvTrace", "dlenv/DlEnvTrace.cfg", execs, chk.out, "trace", batch=4000)
    chk.states += st["states"]
    chk.transitions += st["states"]
    chk.recorded += len(execs) - st["unexamined"]
    for k, matched, path, why in rej:
        ev = execs[k][min(matched, len(execs[k]) - 1)]
        chk.diverge(ev["e"], "trace-rejected" if ev["out"] in ("ok", "dl_exception", "nitro_exception") else ev["out"], dict(nh=4, steps=meta[k]["steps"][:matched + 1]),
                    "recorded call %d rejected by DlEnvTrace (%s): %s%s -> %s %r kinds=%s L1 %d/%d L2 %d/%d" % (
                        matched + 1, why, ev["e"], ev["args"], ev["out"], ev["val"], ev["kinds"], ev["l1o"], ev["l1c"], ev["l2o"], ev["l2c"]), artefact=path)
    if execs:
        chk.sample(dict(kind="code->spec events", events=[(e["e"], e["args"], e["out"]) for e in execs[0][3:11]]))
    chk.assumptions += ["glibc dlopen/dlclose/getenv; the loader calls of the header-only wrapper are counted through --wrap in the driver",
                        "environment values contain no NUL; private variable names NV_*"]
