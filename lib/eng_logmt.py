"""C09: LogMT.tla <-> logmt_driver (controller-scheduled replay of TLC behaviours + free-running traces)."""
import json
import os
import random

import tour
import vcommon as vc

KIND = {0: "Enter", 1: "Chunk", 2: "Exit", 3: "SyncEnter", 4: "SyncExit", 5: "Request", 6: "Released"}


def byte_of(t, r, k):
    return ((t % 8) << 5) | ((r % 4) << 3) | (k % 8)


def check_events(events, n, nrec, nbytes, complete=True):
    """Plain consistency of an event log (the TLC trace spec is the real judge; this gives a readable reason)."""
    inside = None
    seen = {}
    progress = {}
    for t, kind, b in events:
        if kind == 0:
            if inside is not None:
                return "thread %d entered the stream buffer while thread %d was inside" % (t, inside)
            inside = t
        elif kind in (1, 2):
            if inside != t:
                return "thread %d wrote while thread %s was inside" % (t, inside)
            if kind == 1:
                r, k = progress.get(t, (1, 1))
                if b != byte_of(t, r, k):
                    return "thread %d: byte %d of its record %d is %d, expected %d (bytes interleaved / lost / duplicated)" % (t, k, r, b, byte_of(t, r, k))
                progress[t] = (r, k + 1) if k < nbytes else (r + 1, 1)
            else:
                inside = None
        elif kind == 3:
            if inside is not None:
                return "thread %d flushed while thread %d was inside" % (t, inside)
            inside = t
        elif kind == 4:
            inside = None
    if complete:
        for t in range(1, n + 1):
            if progress.get(t, (1, 1)) != (nrec + 1, 1):
                return "thread %d: records incomplete at the end (next expected record %s byte %s)" % ((t,) + progress.get(t, (1, 1)))
    return None


def replay(chk, exe, cfgname, n, nrec, nbytes):
    r = vc.run_tlc("log/LogMT", "log/MC_LogMT_%s.cfg" % cfgname, timeout=1500)
    chk.add_tlc("LogMT/" + cfgname, r)
    if not r["ok"]:
        chk.model_violation("LogMT/" + cfgname, r)
        return
    g = tour.Graph()
    g.add_all(r["lines"]["EDGE"])
    root = json.dumps(dict(pc=["idle"] * n, rec=[1] * n, pos=[1] * n, lock=0, inside=[], n=0), separators=(",", ":"), sort_keys=True)
    paths, ncov, unreach = g.tours(root, max_len=200)
    cases = []
    for p in paths:
        for sink in ("stdout", "stderr"):
            steps = []
            for i in p:
                u, a, v, to = g.edges[i]
                want = [k + 1 for k, x in enumerate(to["pc"]) if x == "want" and to["lock"] != 0]
                steps.append(dict(a=a["op"], t=a["args"][0], want=want))
            # the severity of a record is (3 t + 2 r + seed) mod 6: two seeds give every thread a fatal record once
            for seed in (0, 3):
                cases.append(dict(sink=sink, threads=n, nrec=nrec, nbytes=nbytes, steps=steps, seed=seed))
    obs = vc.run_cases(exe, cases, chk.out, "sched_" + cfgname, per_case_timeout=60, shards=8)
    unreal = [0]
    for c, o in zip(cases, obs):
        wit = c
        if o.get("outcome") == "skipped":
            continue
        if o.get("outcome") != "ok":
            chk.diverge("Release", o.get("outcome"), wit, "%s sink, schedule %s...: %s (%s)" % (c["sink"], [(s["a"], s["t"]) for s in c["steps"]][:12], o.get("outcome"), o.get("why")))
            continue
        if o["fail"]:
            st = c["steps"][o["failstep"]] if 0 <= o["failstep"] < len(c["steps"]) else None
            chk.diverge(("Acquire" if "both past" in o["fail"] or "two threads" in o["fail"] else (st["a"] if st else "?")),
                        "mutual-exclusion" if ("both past" in o["fail"] or "two threads" in o["fail"]) else "stuck", wit,
                        "%s sink, behaviour %s, at step %d: %s" % (c["sink"], [(s["a"], s["t"]) for s in c["steps"]][:o["failstep"] + 1][-10:], o["failstep"] + 1, o["fail"]))
            continue
        if o.get("unrealisable"):
            unreal[0] += 1
        e = check_events(o["events"], n, nrec, nbytes)
        if e or o["concurrent"]:
            chk.diverge("Chunk", "interleaved", wit, "%s sink, behaviour %s...: %s" % (c["sink"], [(s["a"], s["t"]) for s in c["steps"]][:12], e or "concurrent entry detected"))
    chk.replayed += len(cases)
    chk.notes.append("LogMT/%s: %d behaviours (x 2 sinks x 2 severity assignments) cover %d of %d edges; %d replays ended early because the library handed the lock to a different waiting thread than the behaviour (legal nondeterminism)" % (
        cfgname, len(paths), ncov, len(g.edges), unreal[0]))
    if paths:
        chk.sample(dict(kind="spec->code behaviour (controller-scheduled)", threads=n, steps=[(g.edges[i][1]["op"], g.edges[i][1]["args"][0]) for i in paths[len(paths) // 2]][:24]))


def free_running(chk, exe, runs, tag, tsan=False, nbytes=4, cfg="log/LogMTTrace.cfg"):
    rng = random.Random("%s/%s/%s" % (chk.seed, chk.pid, tag))
    cases = [dict(sink=rng.choice(["stdout", "stderr"]), threads=rng.choice([2, 2, 3, 4, 8, 16] if nbytes <= 8 else [2, 3, 4]), nrec=3, nbytes=nbytes, seed=rng.randint(1, 10 ** 6)) for _ in range(runs)]
    env = {"TSAN_OPTIONS": "halt_on_error=1:exitcode=3:report_signal_unsafe=0"} if tsan else None
    obs = vc.run_cases(exe, cases, chk.out, tag, per_case_timeout=60, shards=4 if tsan else 8, env=env)
    execs, meta = [], []
    for c, o in zip(cases, obs):
        if o.get("outcome") == "skipped":
            continue
        if o.get("outcome") != "ok":
            chk.diverge("Chunk", ("data-race" if tsan and o.get("outcome") == "crash" else o.get("outcome")), c,
                        "free-running %s sink with %d threads (seed %d): %s %s" % (c["sink"], c["threads"], c["seed"], o.get("outcome"), o.get("why", "")))
            continue
        if tsan:
            continue      # the ThreadSanitizer pass only looks for reports
        evs = [dict(e=KIND[k], t=t, b=b) for t, k, b in o["events"]]
        evs.append(dict(e="Done", t=0, b=0, n=c["threads"]))
        for e in evs:
            e.setdefault("n", 0)
        if o["concurrent"]:
            chk.diverge("Acquire", "mutual-exclusion", c, "free-running %s sink, %d threads: the stream buffer saw %d concurrent entries" % (c["sink"], c["threads"], o["concurrent"]))
        execs.append(evs)
        meta.append((c, o))
    if tsan:
        chk.notes.append("ThreadSanitizer pass: %d free-running executions" % len(cases))
        return
    rej, st = vc.validate_trace("log/LogMTTrace", cfg, execs, chk.out, tag + "_trace", batch=6000)
    chk.states += st["states"]
    chk.transitions += st["states"]
    chk.recorded += len(execs) - st["unexamined"]
    for k, matched, path, why in rej:
        c, o = meta[k]
        reason = check_events(o["events"], c["threads"], 3, nbytes) or "(see trace)"
        ev = execs[k][min(matched, len(execs[k]) - 1)]
        chk.diverge(ev["e"] if ev["e"] != "Enter" else "Acquire", "mutual-exclusion" if ev["e"] == "Enter" else "interleaved", c,
                    "free-running %s sink, %d threads, seed %d: event %d %s(thread %d) rejected by LogMTTrace (%s): %s" % (
                        c["sink"], c["threads"], c["seed"], matched + 1, ev["e"], ev["t"], why, reason), artefact=path)
    if execs:
        chk.sample(dict(kind="code->spec events (free-running)", threads=meta[0][0]["threads"], events=[(e["e"], e["t"]) for e in execs[0][:16]]))


def apalache(chk):
    """Unbounded part: Apalache discharges an inductive invariant of the lock / buffer core (4 threads, any number of
    records and bytes, behaviours of any length).  A tool problem is only noted; a refuted obligation is a verdict."""
    import shutil, subprocess, time
    exe = shutil.which("apalache-mc")
    if not exe:
        chk.notes.append("apalache-mc not found: inductive invariant not checked")
        return
    d = os.path.join(vc.SPEC, "log", "apalache")
    out = os.path.join(vc.OUT, "apalache_%d" % os.getpid())
    obligations = [("Init => IndInv", "LogMTInd.tla", ["--init=Init", "--inv=IndInv", "--length=0"], 0),
                   ("IndInv /\\ Next => IndInv'", "LogMTInd.tla", ["--init=IndInv", "--inv=IndInv", "--length=1"], 0),
                   ("IndInv => MutualExclusion", "LogMTInd.tla", ["--init=IndInv", "--inv=MutualExclusion", "--length=0"], 0),
                   ("negative control: without 'lock = 0' in Acquire the inductive step fails", "LogMTIndNoLock.tla", ["--init=IndInv", "--inv=IndInv", "--length=1"], 12)]
    done = []
    for name, mod, args, want in obligations:
        t0 = time.time()
        try:
            p = subprocess.run([exe, "check", "--out-dir=" + out, "--cinit=ConstInit"] + args + [mod], cwd=d, capture_output=True, text=True, timeout=600)
        except subprocess.TimeoutExpired:
            chk.notes.append("apalache: %s timed out (not counted)" % name)
            continue
        if p.returncode == want:
            done.append("%s (%.0fs)" % (name, time.time() - t0))
        elif p.returncode in (0, 12):
            pth = os.path.join(chk.out, "apalache_%s.txt" % mod)
            open(pth, "w").write(p.stdout[-4000:])
            chk.divergences.append(dict(where="model:LogMTInd", observed="obligation refuted", witness=None,
                                        detail="Apalache: obligation '%s' has exit code %d, expected %d" % (name, p.returncode, want), replay=pth))
        else:
            chk.notes.append("apalache: %s: tool error %d (not counted)" % (name, p.returncode))
    shutil.rmtree(out, ignore_errors=True)
    chk.notes.append("Apalache 0.58 inductive invariant (4 threads, unbounded records/bytes): " + "; ".join(done))


def run(chk, replay_path):
    exe = vc.build_driver("logmt_driver", ["logmt_driver.cpp"], ldflags=["-pthread"], flags=["-pthread"])
    if replay_path:
        d = json.load(open(replay_path))
        obs = vc.run_cases(exe, [d["witness"]], chk.out, "replay1", per_case_timeout=60)
        print("replayed witness:", json.dumps(d["witness"])[:2000])
        print("observation:", json.dumps(obs[0])[:3000])
        chk.states = chk.transitions = chk.replayed = 1
        chk.sample(dict(kind="replayed witness", fail=obs[0].get("fail")))
        return
    # the design without the lock must violate the invariants (the invariants are not vacuous)
    r = vc.run_tlc("log/LogMT", "log/MC_LogMT_nolock.cfg", timeout=600)
    if r["violated"] not in ("MutualExclusion", "Contiguous"):
        raise vc.Infra("negative control: LogMT without the lock does not violate mutual exclusion (%s)" % r["violated"])
    chk.notes.append("negative control: LogMT with UseLock = FALSE violates %s" % r["violated"])
    apalache(chk)
    replay(chk, exe, "q", 2, 2, 2)
    replay(chk, exe, "n3", 3, 1, 2)
    if chk.thorough():
        replay(chk, exe, "t", 3, 2, 2)
    chk.exhaustive = True
    chk.bounds["models"] = "2 threads x 2 records x 2 bytes, 3 threads x 1 record x 2 bytes" + ("; 3 x 2 x 2" if chk.thorough() else "")
    free_running(chk, exe, 60 if chk.tier == "quick" else 600, "free")
    # long records (beyond what a narrow length field or one buffer chunk holds) stay contiguous too
    free_running(chk, exe, 6 if chk.tier == "quick" else 40, "free_long", nbytes=300, cfg="log/LogMTTrace_long.cfg")
    if chk.thorough():
        texe = vc.build_driver("logmt_driver_tsan", ["logmt_driver.cpp"], ldflags=["-pthread", "-fsanitize=thread"], flags=["-pthread", "-fsanitize=thread"], sanitize=False)
        free_running(chk, texe, 100, "tsan", tsan=True)
    chk.assumptions += ["the checking stream buffer sees every byte the sink writes (std::cout/std::cerr rdbuf replaced)",
                        "a thread that the model says is blocked on the sink's lock is given 0.3-2 ms to show up inside the buffer before the refusal check (a miss is a missed detection, never a false alarm)",
                        "std::mutex of libstdc++ / glibc"]
