"""Shared machinery of /verif/bin/check.

  build_driver   compile a conformance driver from $NITRO_SRC (default /repo) + /verif/harness
  run_tlc        run TLC (BFS or -simulate) on a model, collect counts, exported CASE/EDGE lines
  run_cases      execute a case file on a driver, sharded, restarting after a crash/hang
  validate_trace run a *Trace.tla specification over a recorded NDJSON trace
  Check          per-run context: divergences, known findings, evidence, verdict
"""
import hashlib
import json
import os
import re
import shutil
import subprocess
import sys
import time
from concurrent.futures import ThreadPoolExecutor

VERIF = os.path.dirname(os.path.dirname(os.path.abspath(__file__)))
NITRO_SRC = os.environ.get("NITRO_SRC", "/repo")
BUILD = os.path.join(VERIF, "build")
OUT = os.path.join(VERIF, "out")
SPEC = os.path.join(VERIF, "spec")
HARNESS = os.path.join(VERIF, "harness")
CXX = os.environ.get("VERIF_CXX", "clang++")
JAVA_CP = "/opt/veriftools/tla/tla2tools.jar:/opt/veriftools/tla/CommunityModules-deps.jar"
NCPU = os.cpu_count() or 4

SAN_FLAGS = ["-fsanitize=address,undefined", "-fno-sanitize-recover=undefined", "-fno-omit-frame-pointer"]
BASE_FLAGS = ["-std=c++17", "-O1", "-g", "-DNITRO_VERIF", "-Wno-unused-value"]


class Infra(Exception):
    """The check itself is broken (tool failure, harness does not compile): exit 2, not a verdict."""


def log(*a):
    print("[check]", *a, file=sys.stderr, flush=True)


def sha(s):
    return hashlib.sha1(s.encode() if isinstance(s, str) else s).hexdigest()


def srctag():
    return "src_" + sha(os.path.realpath(NITRO_SRC))[:8]


# ------------------------------------------------------------------------------------------------
# building


def _deps_digest(depfile):
    try:
        txt = open(depfile).read()
    except OSError:
        return None
    txt = txt.replace("\\\n", " ")
    parts = txt.split(":", 1)
    if len(parts) < 2:
        return None
    h = hashlib.sha1()
    for f in parts[1].split():
        if f.startswith("/usr/") or f.startswith("/opt/"):
            continue
        try:
            h.update(open(f, "rb").read())
        except OSError:
            return None
    return h.hexdigest()


def compile_tu(src, obj, flags, cxx=None):
    """Compile one translation unit unless an object built by the same command from byte-identical
    inputs exists.  Returns (ok, compiler output)."""
    os.makedirs(os.path.dirname(obj), exist_ok=True)
    dep = obj + ".d"
    stamp = obj + ".stamp"
    cmd = [cxx or CXX] + flags + ["-MMD", "-MF", dep, "-c", src, "-o", obj]
    key = sha(" ".join(cmd))
    if os.path.exists(obj) and os.path.exists(stamp):
        old = open(stamp).read().split()
        if len(old) == 2 and old[0] == key and old[1] == _deps_digest(dep):
            return True, ""
    p = subprocess.run(cmd, capture_output=True, text=True)
    if p.returncode != 0:
        for f in (obj, stamp):
            if os.path.exists(f):
                os.remove(f)
        return False, p.stderr
    open(stamp, "w").write(key + " " + (_deps_digest(dep) or "x"))
    return True, p.stderr


def build_driver(name, sources, nitro_sources=(), flags=(), ldflags=(), sanitize=True, allow_fail=False, cxx=None):
    """sources: paths under /verif/harness; nitro_sources: paths relative to NITRO_SRC.
    Returns path of the executable.  Raises Infra on compile errors unless allow_fail, in which
    case (None, stderr) is returned.  cxx: another compiler than the default (g++: the compiler the project's own
    build uses; evaluation order of call arguments and overload resolution details differ from clang's)."""
    bdir = os.path.join(BUILD, srctag(), name + ("" if (cxx or CXX) == "clang++" else "_" + re.sub(r"\W", "x", cxx or CXX)))
    os.makedirs(bdir, exist_ok=True)
    # checks may be started in parallel and share drivers (opt_driver, log_driver_*): one builder at a time per driver
    import fcntl
    lockf = open(os.path.join(bdir, ".lock"), "w")
    fcntl.flock(lockf, fcntl.LOCK_EX)
    try:
        return _build_driver_locked(name, bdir, sources, nitro_sources, flags, ldflags, sanitize, allow_fail, cxx)
    finally:
        fcntl.flock(lockf, fcntl.LOCK_UN)
        lockf.close()


def _build_driver_locked(name, bdir, sources, nitro_sources, flags, ldflags, sanitize, allow_fail, cxx=None):
    fl = BASE_FLAGS + (SAN_FLAGS if sanitize else []) + list(flags) + [
        "-I" + os.path.join(NITRO_SRC, "include"), "-I" + HARNESS]
    tus = [(os.path.join(HARNESS, s), os.path.join(bdir, "h_" + s.replace("/", "_") + ".o")) for s in sources]
    tus += [(os.path.join(NITRO_SRC, s), os.path.join(bdir, "n_" + s.replace("/", "_") + ".o")) for s in nitro_sources]
    t0 = time.time()
    with ThreadPoolExecutor(max_workers=NCPU) as ex:
        res = list(ex.map(lambda t: compile_tu(t[0], t[1], fl, cxx), tus))
    errs = [r[1] for r in res if not r[0]]
    if errs:
        if allow_fail:
            return None, "\n".join(errs)
        raise Infra("driver %s does not compile:\n%s" % (name, "\n".join(errs)[:4000]))
    exe = os.path.join(bdir, name)
    objs = [t[1] for t in tus]
    lstamp = exe + ".lstamp"
    lkey = sha((cxx or CXX) + " ".join(objs) + " ".join(ldflags) + "".join(open(o + ".stamp").read() for o in objs))
    if not (os.path.exists(exe) and os.path.exists(lstamp) and open(lstamp).read() == lkey):
        cmd = [cxx or CXX] + (SAN_FLAGS if sanitize else []) + objs + list(ldflags) + ["-o", exe]
        p = subprocess.run(cmd, capture_output=True, text=True)
        if p.returncode != 0:
            if allow_fail:
                return None, p.stderr
            raise Infra("driver %s does not link:\n%s" % (name, p.stderr[:4000]))
        open(lstamp, "w").write(lkey)
    log("built %s in %.1fs" % (name, time.time() - t0))
    return (exe, "") if allow_fail else exe


def try_compile(name, code, flags=()):
    """Compile a tiny translation unit whose compiling *is* the observation. Returns (ok, stderr)."""
    bdir = os.path.join(BUILD, srctag(), "tu")
    os.makedirs(bdir, exist_ok=True)
    src = os.path.join(bdir, name + ".cpp")
    open(src, "w").write(code)
    cmd = [CXX] + BASE_FLAGS + list(flags) + ["-I" + os.path.join(NITRO_SRC, "include"), "-I" + HARNESS,
                                             "-fsyntax-only", src]
    p = subprocess.run(cmd, capture_output=True, text=True)
    return p.returncode == 0, p.stderr


# ------------------------------------------------------------------------------------------------
# TLC

_run_counter = [0]


def run_tlc(module, cfg, **kw):
    """TLC with one retry: a tool failure (unexpected exit code: JVM killed or starved on a loaded machine, ...) is only
    reported (Infra, exit 2) if it repeats; the first failure is appended to out/tlc_failures.log."""
    try:
        return _run_tlc_once(module, cfg, **kw)
    except Infra as e:
        os.makedirs(OUT, exist_ok=True)
        with open(os.path.join(OUT, "tlc_failures.log"), "a") as f:
            f.write("%s pid=%d %s/%s\n%s\n\n" % (time.strftime("%F %T"), os.getpid(), module, cfg, str(e)[-3000:]))
        for f in (kw.get("sink") or {}).values():
            f.seek(0)
            f.truncate()
        log("TLC tool failure on %s, retrying once" % module)
        return _run_tlc_once(module, cfg, **kw)


def _run_tlc_once(module, cfg, *, workers=NCPU, simulate=None, depth=None, env=None, timeout=1100, xmx="8g",
                  deque=False, coverage=False, deadlock=None, seed=None, collect=("CASE", "EDGE"), sink=None,
                  extra=(), on_line=None):
    """Runs TLC on SPEC/<module>.tla with SPEC/<cfg>. Returns a dict:
       rc, ok (no violation, no error), violated (name or None), generated, distinct, lines{tag: [json..]},
       coverage {action: taken}, out (tail of raw output).
       `sink`, if given, maps tag -> open file: matching lines are streamed there instead of collected."""
    mpath = os.path.join(SPEC, module + ".tla")
    mdir = os.path.dirname(mpath)
    _run_counter[0] += 1
    meta = os.path.join(OUT, "tlc", "%d_%d_%s" % (os.getpid(), _run_counter[0], os.path.basename(module)))
    os.makedirs(meta, exist_ok=True)
    jopts = ["-XX:+UseParallelGC", "-Xmx" + xmx, "-Xss16m"]
    if deque:
        jopts.append("-Dtlc2.tool.queue.IStateQueue=StateDeque")
    # every module directory under spec/ is on TLC's library path
    libdirs = [os.path.join(SPEC, d) for d in sorted(os.listdir(SPEC)) if os.path.isdir(os.path.join(SPEC, d))]
    jopts.append("-DTLA-Library=" + os.pathsep.join(libdirs))
    cmd = ["java"] + jopts + ["-cp", JAVA_CP, "tlc2.TLC", "-workers", str(workers), "-metadir", meta,
                              "-config", os.path.join(SPEC, cfg), "-noGenerateSpecTE"]
    if simulate is not None:
        cmd += ["-simulate", "num=%d" % simulate]
        if seed is not None:
            cmd += ["-seed", str(seed)]
    if depth is not None:
        cmd += ["-depth", str(depth)]
    if coverage:
        cmd += ["-coverage", "1"]
    if deadlock is False:
        cmd += ["-deadlock"]
    cmd += list(extra) + [mpath]
    e = dict(os.environ)
    e.pop("JAVA_TOOL_OPTIONS", None)
    if env:
        e.update(env)
    t0 = time.time()
    lines = {t: [] for t in collect}
    counts = {}
    tail = []
    generated = distinct = 0
    violated = None
    cov = {}
    p = subprocess.Popen(cmd, stdout=subprocess.PIPE, stderr=subprocess.STDOUT, text=True, env=e, cwd=mdir,
                         errors="replace")
    timed_out = False
    try:
        import threading
        timer = threading.Timer(timeout, lambda: p.kill())
        timer.start()
        for ln in p.stdout:
            hit = False
            if ln.startswith('"'):
                # PrintT of a string: "TAG payload" with TLA+ escapes
                for t in collect:
                    if ln.startswith(t + " ", 1):
                        body = ln.rstrip("\n")[len(t) + 2:-1].replace('\\"', '"').replace("\\\\", "\\")
                        if sink and t in sink:
                            sink[t].write(body + "\n")
                        elif on_line and t in on_line:
                            on_line[t](body)        # consumed at once (a large export is never held as text)
                            counts[t] = counts.get(t, 0) + 1
                        else:
                            lines[t].append(body)
                        hit = True
                        break
            if hit:
                continue
            tail.append(ln)
            if len(tail) > 400:
                del tail[:200]
            m = re.match(r"(\d+) states generated, (\d+) distinct states found", ln)
            if m:
                generated, distinct = int(m.group(1)), int(m.group(2))
            m = re.match(r"The number of states generated: (\d+)", ln)
            if m:
                generated = int(m.group(1))
            m = re.match(r"Error: Invariant (\S+) is violated", ln)
            if m:
                violated = m.group(1)
            m = re.match(r"Error: Action property (\S+) is violated", ln)
            if m:
                violated = m.group(1)
            if "Temporal properties were violated" in ln:
                violated = violated or "temporal"
            if "Error: Deadlock reached" in ln:
                violated = violated or "Deadlock"
            if "is violated" in ln and violated is None:
                violated = ln.strip()
            m = re.match(r"<(\w+) line \d+, col \d+ to line \d+, col \d+ of module (\w+)>: (\d+):(\d+)", ln)
            if m:
                cov[m.group(1)] = cov.get(m.group(1), 0) + int(m.group(4))
        p.wait()
        timer.cancel()
    finally:
        if p.poll() is None:
            p.kill()
    rc = p.returncode
    if rc in (-9, 137):
        timed_out = True
    shutil.rmtree(meta, ignore_errors=True)
    out = "".join(tail)
    res = dict(rc=rc, violated=violated, generated=generated, distinct=distinct, lines=lines, coverage=cov,
               out=out, wall=time.time() - t0, timed_out=timed_out, cmd=" ".join(cmd))
    res["ok"] = (rc == 0 and violated is None)
    # rc 12 = safety violation, 13 = liveness violation, 11 = deadlock; everything else non-zero is a tool problem
    if rc not in (0, 10, 11, 12, 13) or (rc != 0 and violated is None and rc not in (11, 12, 13)):
        if timed_out and simulate is not None:
            # simulation has no natural end: the outer timeout is the stop criterion
            res["ok"] = violated is None
            return res
        raise Infra("TLC failed (rc=%s) on %s/%s:\n%s" % (rc, module, cfg, out[-3000:]))
    return res


# ------------------------------------------------------------------------------------------------
# executing cases on a driver


def _run_shard(exe, cases_path, obs_path, n_cases, env, per_case_timeout, max_deaths=40):
    """Runs one driver process over a case file, restarting after each death."""
    if os.path.exists(obs_path):
        os.remove(obs_path)
    skip = 0
    restarts = 0
    while skip < n_cases:
        try:
            p = subprocess.run([exe, cases_path, obs_path, str(skip)], capture_output=True, text=True, env=env,
                               timeout=max(60, per_case_timeout * 4 + (n_cases - skip) * 0.05 + 300))
            rc = p.returncode
            err = p.stderr
        except subprocess.TimeoutExpired:
            rc, err = -9, "outer timeout"
        done = 0
        last = None
        if os.path.exists(obs_path):
            with open(obs_path, "rb") as f:
                for ln in f:
                    done += 1
                    last = ln
        if rc == 0:
            break
        restarts += 1
        # the driver died: its handlers normally wrote the outcome of the dying case
        lasti = -1
        if last is not None:
            try:
                lasti = json.loads(last)["i"]
            except Exception:
                # torn line: drop it
                data = open(obs_path, "rb").read()
                cut = data.rstrip(b"\n").rfind(b"\n")
                open(obs_path, "wb").write(data[:cut + 1] if cut >= 0 else b"")
                try:
                    lasti = json.loads(open(obs_path, "rb").read().splitlines()[-1])["i"]
                except Exception:
                    lasti = skip - 1
        nxt = lasti + 1
        if rc == 2:
            raise Infra("driver %s: usage/IO error: %s" % (exe, err[-2000:]))
        if rc != 3 or nxt <= skip - 1:
            # died without the handler (e.g. SIGKILL, stack overflow inside the handler): blame case `nxt`
            with open(obs_path, "a") as f:
                f.write(json.dumps({"i": nxt, "outcome": "crash", "why": "rc=%s %s" % (rc, err[-300:])}) + "\n")
            nxt += 1
        elif err and last is not None:
            pass
        skip = nxt
        if restarts >= max_deaths:
            # death budget used up: the remaining cases of this shard are not examined
            with open(obs_path, "a") as f:
                for k in range(skip, n_cases):
                    f.write('{"i":%d,"outcome":"skipped"}\n' % k)
            break
    return restarts


def run_cases(exe, cases, workdir, tag, env=None, shards=NCPU, per_case_timeout=10):
    """cases: list of JSON-able dicts. Returns list of observations aligned with cases."""
    os.makedirs(workdir, exist_ok=True)
    n = len(cases)
    if n == 0:
        return []
    shards = max(1, min(shards, (n + 49) // 50))
    e = dict(os.environ)
    e["ASAN_OPTIONS"] = "detect_leaks=1:abort_on_error=0:exitcode=3:allocator_may_return_null=1:detect_stack_use_after_return=0"
    e["UBSAN_OPTIONS"] = "print_stacktrace=0:halt_on_error=1"
    if env:
        e.update(env)
    parts = []
    for s in range(shards):
        idx = list(range(s, n, shards))
        cp = os.path.join(workdir, "%s.cases.%d.ndjson" % (tag, s))
        op = os.path.join(workdir, "%s.obs.%d.ndjson" % (tag, s))
        with open(cp, "w") as f:
            for i in idx:
                f.write(json.dumps(cases[i], separators=(",", ":")) + "\n")
        parts.append((idx, cp, op))
    with ThreadPoolExecutor(max_workers=shards) as ex:
        futs = [ex.submit(_run_shard, exe, cp, op, len(idx), e, per_case_timeout) for idx, cp, op in parts]
        restarts = sum(f.result() for f in futs)
    obs = [None] * n
    for idx, cp, op in parts:
        with open(op) as f:
            for ln in f:
                o = json.loads(ln)
                obs[idx[o["i"]]] = o
        os.remove(cp)
        os.remove(op)
    # a timeout is only believed if it repeats when the case runs alone, unloaded, with a four times longer watchdog
    slow = [i for i, o in enumerate(obs) if o is not None and o.get("outcome") == "timeout"][:24]
    if slow and not (env or {}).get("VH_WATCHDOG"):
        e2 = dict(e)
        e2["VH_WATCHDOG"] = str(int(per_case_timeout * 4))
        confirmed = 0
        for i in slow:
            if confirmed >= 2:
                break       # two hangs repeated when run alone: the rest are believed without waiting for each of them
            cp = os.path.join(workdir, "%s.confirm.%d.ndjson" % (tag, i))
            op = os.path.join(workdir, "%s.confirm_obs.%d.ndjson" % (tag, i))
            with open(cp, "w") as f:
                f.write(json.dumps(cases[i], separators=(",", ":")) + "\n")
            _run_shard(exe, cp, op, 1, e2, per_case_timeout * 4)
            try:
                o2 = json.loads(open(op).readline())
                if o2.get("outcome") != "timeout":
                    log("case %d timed out under load but finished when run alone: not a hang" % i)
                else:
                    confirmed += 1
                obs[i] = o2
            except Exception:
                pass
            for f_ in (cp, op):
                if os.path.exists(f_):
                    os.remove(f_)
    missing = [i for i, o in enumerate(obs) if o is None]
    if missing:
        raise Infra("driver %s produced no observation for %d cases (first %d)" % (exe, len(missing), missing[0]))
    return obs


# ------------------------------------------------------------------------------------------------
# trace validation (code -> spec)


def validate_trace(module, cfg, events, workdir, tag, batch=4000, timeout=900, deque=False, xmx="3g",
                   max_rejections_per_batch=6):
    """events: list of executions, each a list of event dicts.  Executions are concatenated into batches
    joined by {"e":"Reset"} events and checked by SPEC/<module>.tla (which reads IOEnv.TRACE).
    Returns list of (exec_index, matched_prefix_len, detail) for rejected executions."""
    os.makedirs(workdir, exist_ok=True)
    batches = []
    cur, cur_idx, cur_n = [], [], 0
    for i, ex in enumerate(events):
        cur.append(ex)
        cur_idx.append(i)
        cur_n += len(ex) + 1
        if cur_n >= batch:
            batches.append((cur_idx, cur))
            cur, cur_idx, cur_n = [], [], 0
    if cur:
        batches.append((cur_idx, cur))

    def lines(ex):
        # an execution may bring its own Reset event (carrying configuration); otherwise a plain one is added
        return ex if (ex and ex[0].get("e") == "Reset") else [{"e": "Reset"}] + ex

    def check(execs, path):
        with open(path, "w") as f:
            for ex in execs:
                for ev in lines(ex):
                    f.write(json.dumps(ev, separators=(",", ":")) + "\n")
        n = sum(len(lines(ex)) for ex in execs)
        r = run_tlc(module, cfg, workers=1, env={"TRACE": path}, timeout=timeout, deque=deque, xmx=xmx,
                    deadlock=False, collect=("MATCHED",))
        matched = 0
        for ln in r["lines"]["MATCHED"]:
            try:
                matched = max(matched, int(ln.strip()))
            except ValueError:
                pass
        return r, n, matched

    def one(bi):
        idxs, execs = batches[bi]
        rejected = []
        states = 0
        start = 0
        rounds = 0
        skipped = 0
        while start < len(execs):
            path = os.path.join(workdir, "%s.batch%d_%d.ndjson" % (tag, bi, rounds))
            r, n, matched = check(execs[start:], path)
            states += r["distinct"]
            os.remove(path)
            if matched >= n and r["ok"]:
                break
            # the execution that contains trace line matched+1 is not a behaviour of the spec
            acc = 0
            k = start
            while k < len(execs) and acc + len(lines(execs[k])) <= matched:
                acc += len(lines(execs[k]))
                k += 1
            if k >= len(execs):
                k = len(execs) - 1
            within = max(0, matched - acc - 1)      # events of execution k that were matched
            p1 = os.path.join(workdir, "%s.rejected_exec%d.ndjson" % (tag, idxs[k]))
            with open(p1, "w") as f:
                for ev in lines(execs[k])[:within + 2]:
                    f.write(json.dumps(ev, separators=(",", ":")) + "\n")
            why = r["violated"] or "no spec action explains the event"
            mm = re.findall(r'verdict = "(\w+)"', r["out"])
            if mm and mm[-1] not in ("none", "ok"):
                why += ": " + mm[-1]
            rejected.append((idxs[k], within, p1, why))
            start = k + 1
            rounds += 1
            if rounds >= max_rejections_per_batch:
                skipped = len(execs) - start
                break
        return rejected, states, skipped

    rej = []
    stats = dict(states=0, batches=len(batches), unexamined=0)
    with ThreadPoolExecutor(max_workers=min(NCPU, max(1, len(batches)))) as ex:
        for rejected, states, skipped in ex.map(one, range(len(batches))):
            rej += rejected
            stats["states"] += states
            stats["unexamined"] += skipped
    return rej, stats


# ------------------------------------------------------------------------------------------------
# verdict, known findings, evidence


def load_known():
    path = os.path.join(VERIF, "known_findings.jsonl")
    out = []
    if os.path.exists(path):
        for ln in open(path):
            ln = ln.strip()
            if ln and not ln.startswith("#"):
                out.append(json.loads(ln))
    return out


class Check:
    def __init__(self, pid, tier, seed):
        self.pid = pid
        self.tier = tier
        self.seed = seed
        self.t0 = time.time()
        # a check of another tree than /repo (bin/selftest-binding) gets a work directory of its own: it may run at the
        # same time as the check of /repo, or as the same check of a third tree
        self.out = os.path.join(OUT, pid, tier if os.path.realpath(NITRO_SRC) == "/repo" else tier + "_" + srctag())
        if os.path.isdir(self.out):
            shutil.rmtree(self.out, ignore_errors=True)
        os.makedirs(self.out, exist_ok=True)
        self.divergences = []     # dicts: where, observed, witness, detail, replay
        self.states = 0
        self.transitions = 0
        self.traces = 0           # behaviours replayed on the code + recorded executions validated
        self.replayed = 0
        self.recorded = 0
        self.samples = []
        self.bounds = {}
        self.actions = {}
        self.assumptions = []
        self.notes = []
        self.exhaustive = False
        self.models = []

    def thorough(self):
        return self.tier == "thorough"

    def add_tlc(self, name, r):
        self.states += r["distinct"]
        self.transitions += r["generated"]
        self.models.append(dict(model=name, distinct=r["distinct"], generated=r["generated"],
                                wall_s=round(r["wall"], 1)))
        for k, v in r["coverage"].items():
            self.actions[k] = self.actions.get(k, 0) + v

    def model_violation(self, name, r):
        """TLC found the *design* violating a formula: always a violation of the check (never a finding)."""
        p = os.path.join(self.out, "tlc_violation_%s.txt" % name.replace("/", "_"))
        open(p, "w").write(r["cmd"] + "\n" + r["out"])
        self.divergences.append(dict(where="model:" + name, observed=str(r["violated"]), witness=None,
                                     detail="TLC reports %s violated in %s" % (r["violated"], name), replay=p))

    def diverge(self, where, observed, witness, detail, artefact=None):
        """Implementation and specification disagree. `where` = spec action / case class, `observed` =
        implementation outcome class; the pair is what known_findings.jsonl is matched on."""
        self.divergences.append(dict(where=where, observed=observed, witness=witness, detail=detail,
                                     artefact=artefact))

    def sample(self, x):
        if len(self.samples) < 6:
            self.samples.append(x)

    def finish(self):
        known = [k for k in load_known() if k.get("property") == self.pid and k.get("status") == "finding"]
        unlisted = []
        listed = {}
        for d in self.divergences:
            hit = None
            for k in known:
                if k.get("where") == d["where"] and k.get("observed") == d["observed"]:
                    hit = k
                    break
            if hit is None:
                unlisted.append(d)
            else:
                listed.setdefault(hit["text"], []).append(d)
        for text, ds in listed.items():
            print("KNOWN-FINDING: property=%s %s (%d cases this run)" % (self.pid, text, len(ds)))
        with open(os.path.join(self.out, "divergences.ndjson"), "w") as f:
            for d in self.divergences[:20000]:
                f.write(json.dumps(dict(where=d["where"], observed=d["observed"], detail=str(d["detail"])[:1500])) + "\n")
        rc = 0
        if unlisted:
            rc = 1
            seen = set()
            n = 0
            for d in unlisted:
                key = (d["where"], d["observed"])
                if key in seen:
                    continue
                seen.add(key)
                n += 1
                rp = d.get("replay")
                if not rp:
                    rp = os.path.join(self.out, "violation_%d.json" % n)
                    json.dump(dict(property=self.pid, where=d["where"], observed=d["observed"],
                                   witness=d["witness"], detail=d["detail"], artefact=d.get("artefact")),
                              open(rp, "w"), indent=1)
                print("VIOLATION property=%s replay=%s" % (self.pid, rp))
                print("  where=%s observed=%s: %s" % (d["where"], d["observed"], str(d["detail"])[:600]))
                if n >= 12:
                    break
            print("  (%d diverging cases in %d classes)" % (len(unlisted), len(set((d["where"], d["observed"]) for d in unlisted))))
        self.write_evidence(len(unlisted), sum(len(v) for v in listed.values()))
        if rc == 0:
            print("held: property=%s tier=%s  %d states in %d model runs, %d specification behaviours replayed on the code, %d recorded executions validated by the specification, %.0f s" % (
                self.pid, self.tier, self.states, len(self.models), self.replayed, self.recorded, time.time() - self.t0))
        return rc

    def write_evidence(self, nviol, nknown):
        ev = dict(
            property_id=self.pid, tier=self.tier, seed=self.seed, level="model_checking",
            coverage=dict(
                states=self.states, transitions=self.transitions,
                traces_validated_against_impl=self.replayed + self.recorded,
                spec_behaviours_replayed_on_code=self.replayed,
                recorded_executions_validated_by_spec=self.recorded,
                samples=self.samples or ["(no sample recorded)"],
                exhaustive=self.exhaustive, models=self.models, bounds=self.bounds,
                action_coverage=self.actions, known_finding_cases=nknown, notes=self.notes,
                nitro_src=NITRO_SRC),
            assumptions=list(dict.fromkeys(self.assumptions)), wall_s=round(time.time() - self.t0, 2), violations=nviol)
        os.makedirs(os.path.join(VERIF, "evidence"), exist_ok=True)
        # evidence is only ever written for the real tree
        if os.path.realpath(NITRO_SRC) == "/repo":
            json.dump(ev, open(os.path.join(VERIF, "evidence", self.pid + ".json"), "w"), indent=1)
        else:
            json.dump(ev, open(os.path.join(self.out, "evidence.json"), "w"), indent=1)


def b(s):
    """python str/bytes -> JSON byte list"""
    if isinstance(s, str):
        s = s.encode("latin-1")
    return list(s)


def ub(l):
    return bytes(l).decode("latin-1")
