"""C13: OptDecl.tla <-> optdecl_driver."""
import json
import random

import tour
import vcommon as vc
from eng_options import NITRO_OPT_SRCS


def cmp_step(act, to, g):
    if g["out"] != act["out"]:
        if act["out"] == "parser_error":
            return "missing-error", "%s%s: specification rejects with the developer error, implementation: %s" % (act["op"], act["args"], g["out"])
        return "unexpected-" + g["out"], "%s%s: specification ok, implementation raised %s (%s)" % (act["op"], act["args"], g["out"], g.get("what"))
    if act["out"] == "ok" and act["op"] == "Declare" and g["id"] != act["id"]:
        return "wrong-identity", "%s%s returned object #%s, specification #%s" % (act["op"], act["args"], g["id"], act["id"])
    if act["out"] == "ok" and act["op"] in ("ShortName", "Env", "Metavar") and g["id"] != act["id"]:
        return "wrong-identity", "%s%s returned another object (#%s)" % (act["op"], act["args"], g["id"])
    if g["state"]["objs"] != to["objs"]:
        return "wrong-state", "after %s%s: declared options %s, specification %s" % (act["op"], act["args"], g["state"]["objs"], to["objs"])
    if g["state"]["groups"] != to["groups"]:
        return "wrong-state", "after %s%s: groups %s, specification %s" % (act["op"], act["args"], g["state"]["groups"], to["groups"])
    if act["op"] == "TryParse" and act["out"] == "ok" and g.get("resolves"):
        return "ambiguous", "parser parses, but %s" % g["resolves"]
    return None


def gen_history(rng, n):
    names = ["a", "b", "c", "dd", "no"]
    grps = ["", "g1", "g2"]
    steps = []
    nobj = 0          # upper bound on objects known to exist; ids beyond the real count are never used
    made = set()
    groups = set()
    for _ in range(n):
        r = rng.random()
        if r < 0.12:
            g = rng.choice(grps[1:])
            groups.add(g)
            steps.append(dict(op="Group", args=[g]))
        elif r < 0.5:
            g = rng.choice([x for x in grps if x == "" or x in groups])
            kind, name = rng.choice(["opt", "multi", "toggle"]), rng.choice(names)
            steps.append(dict(op="Declare", args=[kind, g, name]))
            if name not in made:
                made.add(name)
                nobj += 1
        elif r < 0.75 and nobj:
            steps.append(dict(op="ShortName", args=[rng.randint(1, nobj), rng.choice(["x", "y", "z", "xy", ""])]))
        elif r < 0.82 and nobj:
            steps.append(dict(op="Env", args=[rng.randint(1, nobj), rng.choice(["E1", "E2", ""])]))
        elif r < 0.86 and nobj:
            steps.append(dict(op="Metavar", args=[rng.randint(1, nobj), rng.choice(["M", "N", ""])]))
        elif r < 0.93:
            steps.append(dict(op=rng.choice(["MoveParser", "MoveAssignParser"]), args=[]))
        else:
            steps.append(dict(op="TryParse", args=[]))
    steps.append(dict(op="TryParse", args=[]))
    return steps


def run(chk, replay_path):
    exe = vc.build_driver("optdecl_driver", ["optdecl_driver.cpp"], nitro_sources=NITRO_OPT_SRCS)
    if replay_path:
        d = json.load(open(replay_path))
        obs = vc.run_cases(exe, [d["witness"]], chk.out, "replay1")
        print("replayed witness:", json.dumps(d["witness"]))
        print("observation:", json.dumps(obs[0])[:3000])
        chk.states = chk.transitions = chk.replayed = 1
        chk.sample(dict(kind="replayed witness", observation=obs[0]))
        return
    r = vc.run_tlc("options/OptDecl", "options/MC_OptDecl_%s.cfg" % chk.tier, timeout=3000, xmx="16g")
    chk.add_tlc("OptDecl/" + chk.tier, r)
    if not r["ok"]:
        chk.model_violation("OptDecl", r)
        return
    g = tour.Graph()
    g.add_all(r["lines"]["EDGE"])
    root = json.dumps(dict(objs=[], groups=[], moved=False), separators=(",", ":"), sort_keys=True)
    paths, ncov, unreach = g.tours(root, max_len=30)
    cases = [dict(steps=[dict(op=g.edges[i][1]["op"], args=g.edges[i][1]["args"]) for i in p]) for p in paths]
    obs = vc.run_cases(exe, cases, chk.out, "tour", per_case_timeout=10)
    for p, c, o in zip(paths, cases, obs):
        if o.get("outcome") == "skipped":
            continue
        steps = o.get("steps", [])
        for k, idx in enumerate(p):
            u, act, v, to = g.edges[idx]
            wit = dict(steps=c["steps"][:k + 1])
            hist = ["%s%s" % (s["op"], s["args"]) for s in c["steps"][:k + 1]][-7:]
            if k >= len(steps):
                chk.diverge(act["op"] + ("/after-move" if any(s["op"].startswith("Move") for s in c["steps"][:k]) else ""), o.get("outcome", "crash"), wit,
                            "history %s: implementation %s (%s)" % (hist, o.get("outcome"), o.get("why")))
                break
            rr = cmp_step(act, to, steps[k])
            if rr:
                chk.diverge(act["op"] + ("/after-move" if any(s["op"].startswith("Move") for s in c["steps"][:k]) else ""), rr[0], wit, "history %s: %s" % (hist, rr[1]))
                break
    chk.replayed += len(paths)
    chk.exhaustive = True
    chk.notes.append("tour: %d paths cover %d of %d edges" % (len(paths), ncov, len(g.edges)))
    chk.bounds["model"] = "names {a,b%s} x groups {default,g1} x kinds {option,multi_option,toggle}; short_name arguments {x,y,xy,''}; all call histories incl. moving the parser" % (",c" if chk.thorough() else "")
    if paths:
        chk.sample(dict(kind="spec->code tour path", steps=["%s%s -> %s" % (g.edges[i][1]["op"], g.edges[i][1]["args"], g.edges[i][1]["out"]) for i in paths[len(paths) // 2]][:12]))
    # code -> spec
    rng = random.Random("%s/C13" % chk.seed)
    rc = [dict(steps=gen_history(rng, rng.randint(4, 25))) for _ in range(800 if chk.tier == "quick" else 10000)]
    robs = vc.run_cases(exe, rc, chk.out, "record", per_case_timeout=10)
    execs, meta = [], []
    for c, o in zip(rc, robs):
        if o.get("outcome") == "skipped":
            continue
        evs = []
        steps = o.get("steps", [])
        for k, s in enumerate(c["steps"]):
            if k >= len(steps):
                evs.append(dict(e=s["op"], args=s["args"], out=str(o.get("outcome")), id=0, objs=[], groups=[], resolves=""))
                break
            x = steps[k]
            evs.append(dict(e=s["op"], args=s["args"], out=x["out"], id=x["id"], objs=x["state"]["objs"], groups=x["state"]["groups"], resolves=x.get("resolves", "")))
        execs.append(evs)
        meta.append(c)
    rej, st = vc.validate_trace("options/OptDeclTrace", "options/OptDeclTrace.cfg", execs, chk.out, "trace", batch=4000)
    chk.states += st["states"]
    chk.transitions += st["states"]
    chk.recorded += len(execs) - st["unexamined"]
    for k, matched, path, why in rej:
        ev = execs[k][min(matched, len(execs[k]) - 1)]
        moved = any(e["e"].startswith("Move") for e in execs[k][:matched])
        chk.diverge(ev["e"] + ("/after-move" if moved else ""), "trace-rejected" if ev["out"] in ("ok", "parser_error") else ev["out"], dict(steps=meta[k]["steps"][:matched + 1]),
                    "recorded call %d rejected by OptDeclTrace (%s): %s%s -> %s id=%s objs=%s %s" % (matched + 1, why, ev["e"], ev["args"], ev["out"], ev["id"], ev["objs"], ev["resolves"]), artefact=path)
    if execs:
        chk.sample(dict(kind="code->spec events", events=[(e["e"], e["args"], e["out"]) for e in execs[0][:6]]))
    chk.assumptions += ["object identity = address of the object returned by the declaration call", "options are declared optional so that TryParse with no arguments only fails for declaration errors"]
