"""C15: OptUsage.tla (text predicates evaluated by TLC on every rendering) <-> usage_driver."""
import itertools
import json
import random

import vcommon as vc
from vcommon import b
from eng_options import NITRO_OPT_SRCS


def word(n, ch="w"):
    return ch * n


DESCS = [[], [3], [3] * 12, [50], [3, 50, 3], [7, 7, 7, 7, 7, 7, 7, 7, 7, 7, 7], [40, 1], [39], [41]]


def make_desc(rng, lens):
    return " ".join("".join(rng.choice("abcdefgh") for _ in range(n)) for n in lens)


def gen_decl(rng, k):
    ngroups = rng.choice([0, 0, 1, 2])
    # creation order differs from alphabetical order (the groups live in a std::map)
    groups = [dict(name=b(["zulu", "alpha", "mike"][i]), desc=b(rng.choice(["", "about this group", "x " * 30]))) for i in range(ngroups)]
    nopts = rng.choice([1, 2, 3, 3, 4, 6])
    opts = []
    letters = rng.sample("abcdefghijklmnopqrstuvwxyz", nopts)
    used = set()
    for i in range(nopts):
        ln = rng.choice([1, 2, 5, 20, 45])
        while True:
            name = "".join(rng.choice("abcdefghijklmnopqrstuvwxyz") for _ in range(ln)) + ("-x" if rng.random() < 0.1 else "")
            if name not in used and not name.startswith("no-"):
                used.add(name)
                break
        kind = rng.choice(["opt", "multi", "toggle"])
        o = dict(kind=kind, grp=rng.randint(0, ngroups), name=b(name), letter=ord(letters[i]) if rng.random() < 0.6 else 0,
                 rev=(kind == "toggle" and rng.random() < 0.4), desc=b(make_desc(rng, rng.choice(DESCS))),
                 meta=b(rng.choice(["ARG", "ARG", "FILE", "A_VERY_LONG_METAVAR_NAME"]) if kind != "toggle" else "ARG"),
                 env=b(rng.choice(["", "", "MY_ENV_VAR", "E"])),
                 dflt=[b(rng.choice(["d", "a default", "/some/where/else.txt"]))] if (kind != "toggle" and rng.random() < 0.4) else [])
        opts.append(o)
    return dict(app=b(rng.choice(["p", "prog", "a" * 30])), about=b(rng.choice(["", "About text.", "y " * 50])),
                dgroup=b(rng.choice(["arguments", "options"])), groups=groups, opts=opts,
                allowed=rng.choice([0, 0, 2, -1]), posname=b(rng.choice(["", "files"])),
                prior=b(rng.choice(["", "x", "x" * 37, "x" * 100, "line\n", "some text\nmore", "x" * 79])))


def systematic():
    """A small cross product the random generator might miss: one option, every feature combination."""
    rng = random.Random(7)
    out = []
    for kind, ln, letter, env, dflt, lens, app, prior in itertools.product(
            ["opt", "multi", "toggle"], [1, 20, 45], [0, 120], ["", "ENVV"], [False, True], [[], [3] * 12, [50], [3, 50, 3]], ["p", "a" * 30], ["", "x" * 37]):
        o = dict(kind=kind, grp=0, name=b("n" * ln), letter=letter, rev=(kind == "toggle" and dflt), desc=b(make_desc(rng, lens)),
                 meta=b("ARG"), env=b(env), dflt=[b("dv")] if (dflt and kind != "toggle") else [])
        out.append(dict(app=b(app), about=b(""), dgroup=b("arguments"), groups=[], opts=[o, dict(o, name=b("zz"), letter=0, kind="toggle", rev=False, dflt=[], desc=b("other"))],
                        allowed=0, posname=b(""), prior=b(prior)))
    return out


def lines_of(bs):
    txt = bytes(bs)
    ls = txt.split(b"\n")
    if ls and ls[-1] == b"":
        ls = ls[:-1]
    return [list(x) for x in ls]


def tla_decl(c):
    return dict(app=c["app"], dgroup=c["dgroup"], groups=[dict(name=g["name"], desc=g["desc"]) for g in c["groups"]],
                opts=[dict(kind=o["kind"], grp=o["grp"], name=o["name"], letter=o["letter"], rev=o["rev"], desc=o["desc"], meta=o["meta"],
                           env=o["env"], dflt=o["dflt"]) for o in c["opts"]])


def run(chk, replay_path):
    exe = vc.build_driver("usage_driver", ["usage_driver.cpp"], nitro_sources=NITRO_OPT_SRCS)
    if replay_path:
        d = json.load(open(replay_path))
        obs = vc.run_cases(exe, [d["witness"]], chk.out, "replay1")
        for k in ("fresh", "prior", "cout"):
            print("---- %s ----" % k)
            print(bytes(obs[0].get(k, [])).decode("latin-1"))
        chk.states = chk.transitions = chk.replayed = 1
        chk.sample(dict(kind="replayed witness", fresh=bytes(obs[0].get("fresh", [])).decode("latin-1")))
        return
    # design level: greedy wrapping keeps every word and stays inside the column (and the shipped off-by-one does not)
    r = vc.run_tlc("options/UsageLayout", "options/MC_UsageLayout.cfg", timeout=900)
    chk.add_tlc("UsageLayout", r)
    if not r["ok"]:
        chk.model_violation("UsageLayout", r)
        return
    r2 = vc.run_tlc("options/UsageLayout", "options/MC_UsageLayout_offbyone.cfg", timeout=600)
    if r2["violated"] != "WidthRule":
        raise vc.Infra("negative control: the off-by-one wrapping rule does not violate WidthRule in the model (%s)" % r2["violated"])
    chk.notes.append("negative control: the wrapping rule 'word.size() + 1 > column' violates WidthRule in UsageLayout.tla")
    rng = random.Random("%s/C15" % chk.seed)
    cases = systematic() if chk.thorough() else systematic()[::6]
    cases += [gen_decl(rng, k) for k in range(1200 if chk.tier == "quick" else 12000)]
    obs = vc.run_cases(exe, cases, chk.out, "render", per_case_timeout=10)
    execs, meta = [], []
    for c, o in zip(cases, obs):
        if o.get("outcome") == "skipped":
            continue
        if o.get("outcome") != "ok":
            chk.diverge("Usage", o.get("outcome"), c, "usage() on a valid declaration: %s %s" % (o.get("outcome"), o.get("what", o.get("why"))))
            continue
        if not o["prior_ok"]:
            chk.diverge("Usage", "prior-content-altered", c, "usage() changed what the stream already held")
            continue
        execs.append([dict(e="Usage", decl=tla_decl(c), fresh=lines_of(o["fresh"]), prior=lines_of(o["prior"]), cout=lines_of(o["cout"]),
                           movedc=lines_of(o["movedc"]), moveda=lines_of(o["moveda"]))])
        meta.append((c, o))
    rej, st = vc.validate_trace("options/OptUsageTrace", "options/OptUsageTrace.cfg", execs, chk.out, "trace", batch=600, max_rejections_per_batch=4, xmx="4g")
    chk.states += st["states"]
    chk.transitions += st["states"]
    chk.recorded += len(execs) - st["unexamined"]
    chk.states = max(chk.states, 1)
    chk.transitions = max(chk.transitions, 1)
    for k, matched, path, why in rej:
        c, o = meta[k]
        reason = why.split(": ")[-1]
        txt = bytes(o["fresh"]).decode("latin-1")
        extra = ""
        if reason == "SameOnPriorContent":
            extra = "\n--- with prior content %r ---\n%s" % (bytes(c["prior"]).decode("latin-1"), bytes(o["prior"]).decode("latin-1")[:600])
        if reason.startswith("SameAfterMove"):
            extra = "\n--- usage of the moved parser ---\n%s" % bytes(o["movedc"] if "Construction" in reason else o["moveda"]).decode("latin-1")[:900]
        if reason == "SameOnCout":
            extra = "\n--- on std::cout ---\n%s" % bytes(o["cout"]).decode("latin-1")[:600]
        chk.diverge("Usage", reason, c, "usage text violates %s:\n%s%s" % (reason, txt[:1500], extra), artefact=path)
    chk.notes.append("%d declarations rendered on three kinds of streams, each checked by TLC against OptUsage!UsageOK and stream independence" % len(execs))
    chk.bounds["declarations"] = "systematic one-option cross product (kind x name length 1/20/45 x letter x env x default x description shapes incl. 50-character words x app name length x prior content) + random declarations with up to 2 named groups and 6 options"
    if execs:
        chk.sample(dict(kind="code->spec event", opts=[bytes(o["name"]).decode() for o in meta[0][0]["opts"]], text=bytes(meta[0][1]["fresh"]).decode("latin-1")[:400]))
    chk.assumptions += ["the text is split into lines by the check; everything else (words, sections, entries) is computed by the TLA+ predicates",
                        "names beginning with 'no-' are outside the alphabet; description words contain no blanks by construction",
                        "the verbatim parts (about text, group descriptions) are exempt from the 80-column rule"]
