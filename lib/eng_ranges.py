"""C20: Ranges.tla <-> ranges_driver (one guarded block per container kind x value category x adaptor)."""
import json
import os
import random
import subprocess
from concurrent.futures import ThreadPoolExecutor

import vcommon as vc

CAT = {"lvalue": "lv", "const": "const", "rvalue": "rv", "crvalue": "crv"}
CATNAME = {"lv": "lvalue", "const": "const", "rv": "temporary", "crv": "const temporary"}
CATSPEC = {v: k for k, v in CAT.items()}
AD = {"enumerate": "en", "reverse": "re"}
KINDS = ["vec", "arr", "list", "map", "fv", "carr", "ilist"]
KINDNAME = dict(vec="std::vector", arr="std::array", list="std::list", map="std::map", fv="nitro::lang::fixed_vector", carr="built-in array", ilist="initializer list")


def probe(ids):
    def one(i):
        cmd = [vc.CXX] + vc.BASE_FLAGS + ["-I" + os.path.join(vc.NITRO_SRC, "include"), "-I" + vc.HARNESS, "-fsyntax-only", "-DONLY_" + i,
                                          os.path.join(vc.HARNESS, "ranges_driver.cpp")]
        p = subprocess.run(cmd, capture_output=True, text=True)
        return i, p.returncode == 0, p.stderr
    with ThreadPoolExecutor(vc.NCPU) as ex:
        return list(ex.map(one, ids))


def run(chk, replay_path):
    ids = json.load(open(os.path.join(vc.SPEC, "ranges", "combinations.json")))
    offered = set(json.load(open(os.path.join(vc.SPEC, "ranges", "offered.json"))))
    res = probe(ids)
    now = [i for i, ok, _ in res if ok]
    if not now:
        raise vc.Infra("no enumerate/reverse combination compiles: the driver itself is broken\n" + res[0][2][-1500:])
    for i, ok, err in res:
        if not ok and i in offered:
            first = [l for l in err.splitlines() if "error" in l][:1]
            k, c, a = i.split("_")
            chk.diverge("Begin", "not_compiling", dict(id=i), "%s over a %s %s no longer compiles: %s" % (
                {"en": "enumerate", "re": "reverse"}[a], CATNAME[c], KINDNAME[k], first[0][:300] if first else ""))
    exe = vc.build_driver("ranges_driver", ["ranges_driver.cpp"], flags=["-DHAVE_" + i for i in now])
    r = vc.run_tlc("ranges/Ranges", "ranges/MC_Ranges.cfg", timeout=900)
    chk.add_tlc("Ranges", r)
    if not r["ok"]:
        chk.model_violation("Ranges", r)
        return
    chk.exhaustive = True
    spec_cases = [json.loads(x) for x in r["lines"]["CASE"]]
    dcs = []
    for sc in spec_cases:
        for k in KINDS:
            i = "%s_%s_%s" % (k, CAT[sc["cat"]], AD[sc["adaptor"]])
            if i not in now or (k == "carr" and sc["n"] == 0) or (sc["cat"] == "crvalue" and sc["handoff"] == "assign"):
                continue        # a range over a const temporary may have a const member: assignability is not required
            dcs.append((sc, dict(id=i, n=sc["n"], write=sc["write"], handoff=sc["handoff"], style=sc["style"])))
    if replay_path:
        d = json.load(open(replay_path))
        obs = vc.run_cases(exe, [d["witness"]], chk.out, "replay1")
        print("replayed witness:", json.dumps(d["witness"]), "->", json.dumps(obs[0]))
        chk.replayed = 1
        chk.sample(dict(kind="replayed witness", observation=obs[0]))
        return
    obs = vc.run_cases(exe, [d for _, d in dcs], chk.out, "replay", per_case_timeout=10)
    for (sc, d), o in zip(dcs, obs):
        if o.get("outcome") == "skipped":
            continue
        k = d["id"].split("_")[0]
        what = "%s over a %s %s of length %d%s%s%s" % (sc["adaptor"], sc["cat"], KINDNAME[k], sc["n"], " (writing)" if sc["write"] else "", " (advancing with it++)" if sc["style"] == "post" else "",
                                                  "" if sc["handoff"] == "direct" else " (range object %s before the loop)" % {"copy": "copied", "move": "moved", "assign": "assigned over another range"}[sc["handoff"]])
        if o.get("outcome") != "ok":
            chk.diverge("Deref", o.get("outcome"), d, "%s: %s (%s)" % (what, o.get("outcome"), o.get("why")))
            continue
        if o["visited"] != sc["visited"]:
            chk.diverge("Deref", "wrong-visit", d, "%s visited %s, specification %s" % (what, [(x["idx"], x["val"]) for x in o["visited"]], [(x["idx"], x["val"]) for x in sc["visited"]]))
        elif o["after"] != sc["after"]:
            chk.diverge("Body", "write-not-in-place", d, "%s: container afterwards %s, specification %s" % (what, o["after"], sc["after"]))
        elif o["bad"]:
            chk.diverge("Deref", "dangling", d, "%s: %d reads of destroyed elements (the range did not stay alive)" % (what, o["bad"]))
        elif o["leaked"]:
            chk.diverge("LoopEnd", "leak", d, "%s: %d element objects left" % (what, o["leaked"]))
    chk.replayed += len(dcs)
    chk.notes.append("%d of %d combinations offered; %d spec cases x kinds replayed" % (len(now), len(ids), len(dcs)))
    chk.bounds["model"] = "adaptor x category (lvalue, const, temporary, const temporary) x lengths 0..4 x writing or not x hand-off (direct, copy, move, assign); kinds: vector, array, list, map, fixed_vector, built-in array, initializer list"
    chk.sample(dict(kind="spec->code case", case=dcs[len(dcs) // 2][1], expected=dcs[len(dcs) // 2][0]["visited"]))
    # code -> spec: longer ranges for the kinds that allow them
    rng = random.Random("%s/C20" % chk.seed)
    rc = []
    for _ in range(600 if chk.tier == "quick" else 6000):
        i = rng.choice(now)
        k, c, a = i.split("_")
        n = rng.randint(0, 4) if k in ("arr", "carr", "ilist") else rng.choice([0, 1, 2, 5, 17, 60, 60, 127, 128, 255, 256, 257, 300])
        if k == "carr":
            n = max(1, n)
        rc.append(dict(id=i, n=n, write=(c == "lv" and rng.random() < 0.5), handoff=rng.choice(["direct", "direct", "copy", "move"] + ([] if c == "crv" else ["assign"])), style=rng.choice(["pre", "pre", "post"])))
    robs = vc.run_cases(exe, rc, chk.out, "record", per_case_timeout=10)
    execs = []
    for d, o in zip(rc, robs):
        k, c, a = d["id"].split("_")
        execs.append([dict(e="Loop", adaptor={"en": "enumerate", "re": "reverse"}[a], cat=CATSPEC[c], n=d["n"], write=d["write"], handoff=d["handoff"], style=d["style"],
                           outcome=str(o.get("outcome")), visited=o.get("visited", []), after=o.get("after", []), bad=o.get("bad", 0), leaked=o.get("leaked", 0))])
    rej, st = vc.validate_trace("ranges/RangesTrace", "ranges/RangesTrace.cfg", execs, chk.out, "trace", batch=3000)
    chk.states += st["states"]
    chk.transitions += st["states"]
    chk.recorded += len(execs) - st["unexamined"]
    for k, matched, path, why in rej:
        ev = execs[k][0]
        chk.diverge("Deref", "trace-rejected" if ev["outcome"] == "ok" else ev["outcome"], rc[k],
                    "recorded loop rejected by RangesTrace (%s): %s -> visited %s after %s bad=%s" % (why, json.dumps(rc[k]), [(x["idx"], x["val"]) for x in ev["visited"]][:12], ev["after"][:12], ev["bad"]), artefact=path)
    chk.assumptions += ["elements are registry-instrumented integers: reading a destroyed element is counted as a dangling access (ASan as backstop)",
                        "the set of combinations the library offers is recorded in spec/ranges/offered.json (all 46 on the unchanged tree)"]
