// Conformance driver for nitro::lang string functions (C17) and nitro::format (C08).
// One case = one call; the observation is the outcome class and the result as byte lists.
#include <common/vh.hpp>

#include <nitro/except/raise.hpp>
#include <nitro/format/format.hpp>
#include <nitro/lang/string.hpp>

#include <list>
#include <sstream>

using vh::J;

static std::string exc_class(const std::exception& e)
{
    if (dynamic_cast<const nitro::except::exception*>(&e))
        return "nitro_exception";
    return "std_exception";
}

template <typename F>
static J guarded(F f)
{
    J o = J::obj();
    try
    {
        f(o);
        if (!o.has("outcome"))
            o.set("outcome", "ok");
    }
    catch (const std::exception& e)
    {
        o = J::obj();
        o.set("outcome", "raise");
        o.set("cls", exc_class(e));
        o.set("what", J::bytes(e.what()));
    }
    catch (...)
    {
        o = J::obj();
        o.set("outcome", "raise");
        o.set("cls", "other");
    }
    return o;
}

// ---- C08 helpers -----------------------------------------------------------------------------
static J run_format(const J& c)
{
    std::string fmt = c["fmt"].as_bytes();
    auto args = c["args"].as_bytes_list();
    std::string via = c["via"].str();
    return guarded([&](J& o) {
        auto f = nitro::format(fmt);
        if (via == "mod")
        {
            for (auto& a : args)
                f % a;
        }
        else if (via == "copy")
        {
            // a copy made half way keeps the arguments given so far and is completed on its own
            std::size_t half = args.size() / 2;
            for (std::size_t k = 0; k < half; k++)
                f % args[k];
            auto g = f;
            for (std::size_t k = half; k < args.size(); k++)
                g % args[k];
            f = g;
        }
        else
        {
            switch (args.size())
            {
            case 0:
                f.args();
                break;
            case 1:
                f.args(args[0]);
                break;
            case 2:
                f.args(args[0], args[1]);
                break;
            case 3:
                f.args(args[0], args[1], args[2]);
                break;
            case 4:
                f.args(args[0], args[1], args[2], args[3]);
                break;
            default:
                f.args(args[0], args[1], args[2], args[3], args[4]);
                break;
            }
        }
        std::string text = f.str();
        std::string conv = f;
        std::stringstream ss;
        ss << f;
        o.set("out", J::bytes(text));
        o.set("conv", J::bytes(conv));
        o.set("stream", J::bytes(ss.str()));
    });
}

static J run_raise(const J& c)
{
    // message of a raised exception = concatenation of the stream representations
    auto items = c["items"]; // each {"t":"s","v":bytes} or {"t":"i","v":int}
    J o = J::obj();
    try
    {
        auto S = [&](std::size_t k) { return items[k]["v"].as_bytes(); };
        auto I = [&](std::size_t k) { return items[k]["v"].num(); };
        auto isS = [&](std::size_t k) { return items[k]["t"].str() == "s"; };
        std::string shape;
        for (std::size_t k = 0; k < items.size(); k++)
            shape += isS(k) ? 's' : 'i';
        if (shape == "s")
            nitro::raise(S(0));
        else if (shape == "i")
            nitro::raise(I(0));
        else if (shape == "ss")
            nitro::raise(S(0), S(1));
        else if (shape == "si")
            nitro::raise(S(0), I(1));
        else if (shape == "is")
            nitro::raise(I(0), S(1));
        else if (shape == "ii")
            nitro::raise(I(0), I(1));
        else if (shape == "sss")
            nitro::raise(S(0), S(1), S(2));
        else if (shape == "sis")
            nitro::raise(S(0), I(1), S(2));
        else if (shape == "isi")
            nitro::raise(I(0), S(1), I(2));
        else if (shape == "ssi")
            nitro::raise(S(0), S(1), I(2));
        else if (shape == "iss")
            nitro::raise(I(0), S(1), S(2));
        else if (shape == "sii")
            nitro::raise(S(0), I(1), I(2));
        else if (shape == "iis")
            nitro::raise(I(0), I(1), S(2));
        else if (shape == "iii")
            nitro::raise(I(0), I(1), I(2));
        else if (shape == "ssss")
            nitro::raise(S(0), S(1), S(2), S(3));
        else if (shape == "sisi")
            nitro::raise(S(0), I(1), S(2), I(3));
        else if (shape == "isis")
            nitro::raise(I(0), S(1), I(2), S(3));
        else
        {
            o.set("outcome", "unsupported");
            return o;
        }
        o.set("outcome", "ok"); // raise returned: never expected
    }
    catch (const nitro::except::exception& e)
    {
        o.set("outcome", "raise");
        o.set("cls", "nitro_exception");
        o.set("out", J::bytes(e.what()));
    }
    catch (const std::exception& e)
    {
        o.set("outcome", "raise");
        o.set("cls", "std_exception");
        o.set("out", J::bytes(e.what()));
    }
    return o;
}

static J run(const J& c)
{
    const std::string op = c["op"].str();
    if (op == "split")
    {
        std::string h = c["a1"].as_bytes(), n = c["a2"].as_bytes();
        return guarded([&](J& o) { o.set("out", J::bytes_list(nitro::lang::split(h, n))); });
    }
    if (op == "replace")
    {
        std::string s = c["a1"].as_bytes(), p = c["a2"].as_bytes(), r = c["a3"].as_bytes();
        return guarded([&](J& o) {
            nitro::lang::replace_all(s, p, r);
            o.set("out", J::bytes(s));
        });
    }
    if (op == "join")
    {
        auto elems = c["a1"].as_bytes_list();
        std::string infix = c["a2"].as_bytes();
        return guarded([&](J& o) {
            o.set("out", J::bytes(nitro::lang::join(elems, infix)));
            o.set("out_iter", J::bytes(nitro::lang::join(elems.begin(), elems.end(), infix)));
            if (infix == " ")
                o.set("out_default", J::bytes(nitro::lang::join(elems)));
            std::list<std::string> l(elems.begin(), elems.end());
            o.set("out_list", J::bytes(nitro::lang::join(l.begin(), l.end(), infix)));
        });
    }
    if (op == "starts")
    {
        std::string f = c["a1"].as_bytes(), b = c["a2"].as_bytes();
        return guarded([&](J& o) {
            J r = J::arr();
            r.push(J(nitro::lang::starts_with(f, b) ? 1 : 0));
            o.set("out", r);
        });
    }
    if (op == "format")
        return run_format(c);
    if (op == "raise")
        return run_raise(c);
    J o = J::obj();
    o.set("outcome", "unsupported");
    return o;
}

int main(int argc, char** argv)
{
    return vh::run_cases(argc, argv, run, 5);
}
