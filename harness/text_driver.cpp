// Conformance driver for nitro::lang string functions (C17) and nitro::format (C08).
// One case = one call; the observation is the outcome class and the result as byte lists.
#include <common/vh.hpp>

#include <iomanip>
#include <memory>
#include <sstream>

#include <nitro/except/raise.hpp>
#include <nitro/format/format.hpp>
#include <nitro/lang/string.hpp>

#include <list>
#include <sstream>

using vh::J;

static std::string exc_class(const std::exception& e)
{
    if (dynamic_cast<const nitro::except::exception*>(&e))
        return "nitro_exception";
    return "std_exception";
}

template <typename F>
static J guarded(F f)
{
    J o = J::obj();
    try
    {
        f(o);
        if (!o.has("outcome"))
            o.set("outcome", "ok");
    }
    catch (const std::exception& e)
    {
        o = J::obj();
        o.set("outcome", "raise");
        o.set("cls", exc_class(e));
        o.set("what", J::bytes(e.what()));
    }
    catch (...)
    {
        o = J::obj();
        o.set("outcome", "raise");
        o.set("cls", "other");
    }
    return o;
}

// ---- C08 helpers -----------------------------------------------------------------------------
static J run_format(const J& c)
{
    std::string fmt = c["fmt"].as_bytes();
    auto args = c["args"].as_bytes_list();
    std::string via = c["via"].str();
    return guarded([&](J& o) {
        // via "nf": the formatter made by the user-defined literal operator (called as a function: the text is not
        // known at compile time)
        auto f = via == "nf" ? operator""_nf(fmt.c_str(), fmt.size()) : nitro::format(fmt);
        if (via == "mod" || via == "nf")
        {
            for (auto& a : args)
                f % a;
        }
        else if (via == "copy")
        {
            // a copy made half way keeps the arguments given so far and is completed on its own
            std::size_t half = args.size() / 2;
            for (std::size_t k = 0; k < half; k++)
                f % args[k];
            auto g = f;
            for (std::size_t k = half; k < args.size(); k++)
                g % args[k];
            f = g;
        }
        else
        {
            switch (args.size())
            {
            case 0:
                f.args();
                break;
            case 1:
                f.args(args[0]);
                break;
            case 2:
                f.args(args[0], args[1]);
                break;
            case 3:
                f.args(args[0], args[1], args[2]);
                break;
            case 4:
                f.args(args[0], args[1], args[2], args[3]);
                break;
            default:
                f.args(args[0], args[1], args[2], args[3], args[4]);
                break;
            }
        }
        std::string text = f.str();
        std::string conv = f;
        std::stringstream ss;
        ss << f;
        o.set("out", J::bytes(text));
        o.set("conv", J::bytes(conv));
        o.set("stream", J::bytes(ss.str()));
    });
}

static J run_raise_items(const J& items);
static J run_raise(const J& c)
{
    // message of a raised exception = concatenation of the stream representations
    auto items = c["items"]; // each {"t":"s","v":bytes} or {"t":"i","v":int}; "h" items go through the run-time item type
    for (std::size_t k = 0; k < items.size(); k++)
        if (items[k]["t"].str() == "h")
            return run_raise_items(items);
    J o = J::obj();
    try
    {
        auto S = [&](std::size_t k) { return items[k]["v"].as_bytes(); };
        auto I = [&](std::size_t k) { return items[k]["v"].num(); };
        auto isS = [&](std::size_t k) { return items[k]["t"].str() == "s"; };
        std::string shape;
        for (std::size_t k = 0; k < items.size(); k++)
            shape += isS(k) ? 's' : 'i';
        if (shape == "s")
            nitro::raise(S(0));
        else if (shape == "i")
            nitro::raise(I(0));
        else if (shape == "ss")
            nitro::raise(S(0), S(1));
        else if (shape == "si")
            nitro::raise(S(0), I(1));
        else if (shape == "is")
            nitro::raise(I(0), S(1));
        else if (shape == "ii")
            nitro::raise(I(0), I(1));
        else if (shape == "sss")
            nitro::raise(S(0), S(1), S(2));
        else if (shape == "sis")
            nitro::raise(S(0), I(1), S(2));
        else if (shape == "isi")
            nitro::raise(I(0), S(1), I(2));
        else if (shape == "ssi")
            nitro::raise(S(0), S(1), I(2));
        else if (shape == "iss")
            nitro::raise(I(0), S(1), S(2));
        else if (shape == "sii")
            nitro::raise(S(0), I(1), I(2));
        else if (shape == "iis")
            nitro::raise(I(0), I(1), S(2));
        else if (shape == "iii")
            nitro::raise(I(0), I(1), I(2));
        else if (shape == "ssss")
            nitro::raise(S(0), S(1), S(2), S(3));
        else if (shape == "sisi")
            nitro::raise(S(0), I(1), S(2), I(3));
        else if (shape == "isis")
            nitro::raise(I(0), S(1), I(2), S(3));
        else
        {
            o.set("outcome", "unsupported");
            return o;
        }
        o.set("outcome", "ok"); // raise returned: never expected
    }
    catch (const nitro::except::exception& e)
    {
        o.set("outcome", "raise");
        o.set("cls", "nitro_exception");
        o.set("out", J::bytes(e.what()));
    }
    catch (const std::exception& e)
    {
        o.set("outcome", "raise");
        o.set("cls", "std_exception");
        o.set("out", J::bytes(e.what()));
    }
    return o;
}

// A streamable item decided at run time: text, integer, or a user type that prints its number in hexadecimal and - as
// such types commonly do - leaves the stream in that mode.
// A type whose own operator<< is written with nitro::format (formatting is re-entrant): Nested{"x"} streams as "<x>".
struct Nested
{
    std::string inner;
};
static std::ostream& operator<<(std::ostream& os, const Nested& n)
{
    return os << (nitro::format("<{}>") % n.inner);
}
static bool looks_nested(const std::string& s)
{
    return s.size() >= 2 && s.front() == '<' && s.back() == '>';
}
struct Item
{
    char t;
    std::string s;
    long long i;
    std::vector<std::string> inner; // kind 'j'
};
static std::ostream& operator<<(std::ostream& os, const Item& it)
{
    if (it.t == 's' && looks_nested(it.s))
        return os << Nested{ it.s.substr(1, it.s.size() - 2) };
    if (it.t == 's')
        return os << it.s;
    if (it.t == 'h')
        return os << std::hex << it.i;
    if (it.t == 'j')
        return os << "[" << nitro::lang::join(it.inner, ",") << "]";
    return os << it.i;
}
static Item item_of(const J& j)
{
    Item it{ j["t"].str()[0], "", 0, {} };
    if (it.t == 's')
        it.s = j["v"].as_bytes();
    else if (it.t == 'j')
        it.inner = j["v"].as_bytes_list();
    else
        it.i = j["v"].num();
    return it;
}
static J run_raise_items(const J& items)
{
    J o = J::obj();
    std::vector<Item> v;
    for (std::size_t k = 0; k < items.size(); k++)
        v.push_back(item_of(items[k]));
    try
    {
        switch (v.size())
        {
        case 1:
            nitro::raise(v[0]);
            break;
        case 2:
            nitro::raise(v[0], v[1]);
            break;
        case 3:
            nitro::raise(v[0], v[1], v[2]);
            break;
        case 4:
            nitro::raise(v[0], v[1], v[2], v[3]);
            break;
        default:
            o.set("outcome", "unsupported");
            return o;
        }
        o.set("outcome", "ok");
    }
    catch (const nitro::except::exception& e)
    {
        o.set("outcome", "raise");
        o.set("cls", "nitro_exception");
        o.set("out", J::bytes(e.what()));
    }
    catch (const std::exception& e)
    {
        o.set("outcome", "raise");
        o.set("cls", "std_exception");
        o.set("out", J::bytes(e.what()));
    }
    return o;
}

// A history of operations on one thread: {"ops":[{"op":"format","fmt":..,"args":[..],"cont":"new|again|mod|args"} |
// {"op":"raise","items":[..]}]}.  "cont" other than "new" continues the formatter object of the previous operation.
static J run_fhist(const J& c)
{
    J out = J::arr();
    std::unique_ptr<nitro::detail::formatter<char>> f;
    const J& ops = c["ops"];
    for (std::size_t k = 0; k < ops.size(); k++)
    {
        const J& x = ops[k];
        J r;
        if (x["op"].str() == "raise")
        {
            r = run_raise_items(x["items"]);
        }
        else
        {
            auto args = x["args"].as_bytes_list();
            const std::string cont = x["cont"].str();
            r = guarded([&](J& o) {
                if (cont == "new" || !f)
                {
                    f = std::make_unique<nitro::detail::formatter<char>>(nitro::format(x["fmt"].as_bytes()));
                    for (std::size_t i = 0; i < args.size(); i++)
                    {
                        // a text of the form <...> is supplied as an object whose operator<< itself uses nitro::format
                        if (looks_nested(args[i]) && i % 2 == 0)
                            (*f) % Nested{ args[i].substr(1, args[i].size() - 2) };
                        else if (looks_nested(args[i]))
                            f->args(Nested{ args[i].substr(1, args[i].size() - 2) });
                        else if (i % 2 == 0)
                            (*f) % args[i];
                        else
                            f->args(args[i]);
                    }
                }
                else if (cont == "mod" && looks_nested(args.back()))
                    (*f) % Nested{ args.back().substr(1, args.back().size() - 2) };
                else if (cont == "mod")
                    (*f) % args.back();
                else if (cont == "args" && looks_nested(args.back()))
                    f->args(Nested{ args.back().substr(1, args.back().size() - 2) });
                else if (cont == "args")
                    f->args(args.back());
                std::string text = f->str();
                std::string conv = *f;
                std::stringstream ss;
                ss << *f;
                o.set("out", J::bytes(text));
                o.set("conv", J::bytes(conv));
                o.set("stream", J::bytes(ss.str()));
            });
        }
        vh::note_step(r);
        out.push(r);
    }
    return J::obj().set("outcome", "ok").set("ops", out);
}

static J run(const J& c)
{
    const std::string op = c["op"].str();
    if (op == "fhist")
        return run_fhist(c);
    if (op == "split")
    {
        std::string h = c["a1"].as_bytes(), n = c["a2"].as_bytes();
        return guarded([&](J& o) {
            o.set("out", J::bytes_list(nitro::lang::split(h, n)));
            // the same call with temporaries / a const object as arguments: value category does not matter
            J alts = J::arr();
            alts.push(J::bytes_list(nitro::lang::split(std::string(h), std::string(n))));
            const std::string ch = h, cn = n;
            alts.push(J::bytes_list(nitro::lang::split(ch, cn)));
            o.set("alts", alts);
        });
    }
    if (op == "replace")
    {
        std::string s = c["a1"].as_bytes(), p = c["a2"].as_bytes(), r = c["a3"].as_bytes();
        return guarded([&](J& o) {
            nitro::lang::replace_all(s, p, r);
            o.set("out", J::bytes(s));
        });
    }
    if (op == "join")
    {
        auto elems = c["a1"].as_bytes_list();
        std::string infix = c["a2"].as_bytes();
        return guarded([&](J& o) {
            o.set("out", J::bytes(nitro::lang::join(elems, infix)));
            o.set("out_iter", J::bytes(nitro::lang::join(elems.begin(), elems.end(), infix)));
            if (infix == " ")
                o.set("out_default", J::bytes(nitro::lang::join(elems)));
#ifndef VERIF_MINIMAL
            std::list<std::string> l(elems.begin(), elems.end());
            o.set("out_list", J::bytes(nitro::lang::join(l.begin(), l.end(), infix)));
            // the list as a temporary (moved copy, function result), as a const object, over const iterators
            J alts = J::arr();
            auto copy = elems;
            alts.push(J::bytes(nitro::lang::join(std::move(copy), infix)));
            auto make = [&]() { return elems; };
            alts.push(J::bytes(nitro::lang::join(make(), std::string(infix))));
            const auto celems = elems;
            alts.push(J::bytes(nitro::lang::join(celems, infix)));
            alts.push(J::bytes(nitro::lang::join(celems.cbegin(), celems.cend(), infix)));
            o.set("alts", alts);
#endif
        });
    }
    if (op == "joinitems")
    {
        // join over streamable elements that are not strings: integers, a type that leaves its stream in hexadecimal
        // mode, a list type whose operator<< itself calls join
        std::vector<Item> elems;
        for (std::size_t k = 0; k < c["a1"].size(); k++)
            elems.push_back(item_of(c["a1"][k]));
        std::string infix = c["a2"].as_bytes();
        return guarded([&](J& o) {
            o.set("out", J::bytes(nitro::lang::join(elems.begin(), elems.end(), infix)));
#ifndef VERIF_MINIMAL
            std::list<Item> l(elems.begin(), elems.end());
            J alts = J::arr();
            alts.push(J::bytes(nitro::lang::join(l.begin(), l.end(), infix)));
            o.set("alts", alts);
#endif
        });
    }
    if (op == "starts")
    {
        std::string f = c["a1"].as_bytes(), b = c["a2"].as_bytes();
        return guarded([&](J& o) {
            J r = J::arr();
            r.push(J(nitro::lang::starts_with(f, b) ? 1 : 0));
            o.set("out", r);
            J alts = J::arr(), r2 = J::arr();
            r2.push(J(nitro::lang::starts_with(std::string(f), std::string(b)) ? 1 : 0));
            alts.push(r2);
            o.set("alts", alts);
        });
    }
    if (op == "format")
        return run_format(c);
    if (op == "raise")
        return run_raise(c);
    J o = J::obj();
    o.set("outcome", "unsupported");
    return o;
}

int main(int argc, char** argv)
{
    return vh::run_cases(argc, argv, run, 5);
}
