// Conformance driver for the thread-safe sinks stdout_mt / stderr_mt (C09).
// The stream buffer of std::cout / std::cerr is replaced by one that is deliberately NOT thread-safe in the sense
// that it detects any concurrent entry, and that has a pause point before every step a thread takes inside it.
//
// mode "sched": {"sink":"stdout"|"stderr","threads":N,"nrec":R,"nbytes":B,"steps":[{"a":"Request","t":1,"want":[..]},...]}
//   a controller thread replays one behaviour of LogMT.tla: it grants each thread exactly the step the behaviour
//   takes next and checks after every step that no thread the model says is still waiting for the lock has entered
//   the stream buffer (refusal), that at most one thread is inside, and that granted steps really happen.
// mode "free": {"sink":..,"threads":N,"nrec":R,"nbytes":B,"seed":s}  threads run freely with seeded delays inside
//   the buffer; the ticketed event log is returned for validation by LogMTTrace.tla.
#include <common/vh.hpp>

#include <nitro/log/log.hpp>

#include <nitro/log/attribute/message.hpp>
#include <nitro/log/attribute/severity.hpp>
#include <nitro/log/attribute/timestamp.hpp>
#include <nitro/log/filter/severity_filter.hpp>
#include <nitro/log/sink/stderr_mt.hpp>
#include <nitro/log/sink/stdout_mt.hpp>

#include <atomic>
#include <chrono>
#include <iostream>
#include <mutex>
#include <streambuf>
#include <thread>
#include <vector>

using vh::J;
namespace nl = nitro::log;

enum At
{
    NotStarted = 0,
    BeforeRequest,
    Requested,
    AtEnter,
    InBuf,
    AtExit,
    AfterExit,
    AtSyncEnter,
    InSync,
    Released,
    Finished
};

struct Event
{
    int t;
    int kind; // 0 enter, 1 byte, 2 exit, 3 sync_enter, 4 sync_exit, 5 request, 6 released
    int b;
};

struct Shared
{
    std::atomic<bool> free_run{ false };
    std::atomic<int> inside{ 0 };
    std::atomic<int> concurrent{ 0 };
    std::mutex emu;
    std::vector<Event> events;
    std::vector<unsigned char> out;
    static const int MAXT = 32;
    std::atomic<int> at[MAXT];
    std::atomic<long> grants[MAXT];
    std::atomic<long> used[MAXT];
    std::atomic<long> steps_done[MAXT];
    unsigned seed = 0;
    void reset()
    {
        free_run = false;
        inside = 0;
        concurrent = 0;
        events.clear();
        out.clear();
        for (int i = 0; i < MAXT; i++)
        {
            at[i] = NotStarted;
            grants[i] = 0;
            used[i] = 0;
            steps_done[i] = 0;
        }
    }
};
static Shared g;
static thread_local int tl_tid = -1;
static thread_local unsigned tl_rng = 1;

static void log_event(int t, int kind, int b = 0)
{
    std::lock_guard<std::mutex> l(g.emu);
    g.events.push_back({ t, kind, b });
    if (kind == 1)
        g.out.push_back(static_cast<unsigned char>(b));
}

// wait for the controller to grant the next step (or run freely with a seeded delay)
static void pause_point(int t, At where)
{
    g.at[t] = where;
    if (g.free_run)
    {
        tl_rng = tl_rng * 1103515245u + 12345u;
        unsigned d = (tl_rng >> 16) % 7;
        if (d == 0)
            std::this_thread::yield();
        else if (d < 3)
            std::this_thread::sleep_for(std::chrono::microseconds(d * 20));
        return;
    }
    long mine = g.used[t].fetch_add(1) + 1;
    while (g.grants[t].load() < mine && !g.free_run)
        std::this_thread::sleep_for(std::chrono::microseconds(20));
}

static void enter_buf(int t)
{
    if (g.inside.fetch_add(1) != 0)
        g.concurrent.fetch_add(1);
}
static void leave_buf(int)
{
    g.inside.fetch_sub(1);
}

class CheckingBuf : public std::streambuf
{
protected:
    std::streamsize xsputn(const char* s, std::streamsize n) override
    {
        int t = tl_tid;
        if (t < 0)
            return n; // not one of ours (should not happen)
        pause_point(t, AtEnter);
        enter_buf(t);
        log_event(t, 0);
        g.at[t] = InBuf;
        g.steps_done[t]++;
        for (std::streamsize i = 0; i < n; i++)
        {
            pause_point(t, InBuf);
            log_event(t, 1, static_cast<unsigned char>(s[i]));
            g.steps_done[t]++;
        }
        pause_point(t, AtExit);
        log_event(t, 2);
        leave_buf(t);
        g.at[t] = AfterExit;
        g.steps_done[t]++;
        return n;
    }
    int_type overflow(int_type c) override
    {
        if (c != traits_type::eof())
        {
            char ch = static_cast<char>(c);
            xsputn(&ch, 1);
        }
        return c;
    }
    int sync() override
    {
        int t = tl_tid;
        if (t < 0)
            return 0;
        pause_point(t, AtSyncEnter);
        enter_buf(t);
        log_event(t, 3);
        g.at[t] = InSync;
        g.steps_done[t]++;
        pause_point(t, InSync);
        log_event(t, 4);
        leave_buf(t);
        g.at[t] = AfterExit;
        g.steps_done[t]++;
        return 0;
    }
};

using Record = nl::record<nl::message_attribute, nl::severity_attribute, nl::timestamp_attribute>;
template <typename R>
struct PlainFormatter
{
    std::string format(R& r)
    {
        return r.message();
    }
};
template <typename R>
using Flt = nl::filter::severity_filter<R, 0>;
using LOut = nl::logger<Record, PlainFormatter, nl::sink::stdout_mt, Flt>;
using LErr = nl::logger<Record, PlainFormatter, nl::sink::StdErrThreaded, Flt>;

static std::string payload(int t, int r, int nbytes)
{
    // byte k of record r of thread t:  unique and recognisable: t in the high bits, r and k below
    std::string s;
    for (int k = 1; k <= nbytes; k++)
        s.push_back(static_cast<char>(((t & 7) << 5) | ((r & 3) << 3) | (k & 7)));
    return s;
}

static void worker(int t, bool use_err, int nrec, int nbytes, unsigned seed)
{
    tl_tid = t;
    tl_rng = seed * 2654435761u + static_cast<unsigned>(t) * 97u + 1u;
    for (int r = 1; r <= nrec; r++)
    {
        std::string msg = payload(t, r, nbytes);
        pause_point(t, BeforeRequest);
        log_event(t, 5);
        g.at[t] = Requested;
        g.steps_done[t]++;
        // every severity goes through the same sink and the same lock
        switch ((t * 3 + r * 2 + static_cast<int>(seed)) % 6)
        {
        case 0:
            use_err ? (void)(LErr::trace() << msg) : (void)(LOut::trace() << msg);
            break;
        case 1:
            use_err ? (void)(LErr::debug() << msg) : (void)(LOut::debug() << msg);
            break;
        case 2:
            use_err ? (void)(LErr::info() << msg) : (void)(LOut::info() << msg);
            break;
        case 3:
            use_err ? (void)(LErr::warn() << msg) : (void)(LOut::warn() << msg);
            break;
        case 4:
            use_err ? (void)(LErr::error() << msg) : (void)(LOut::error() << msg);
            break;
        default:
            use_err ? (void)(LErr::fatal() << msg) : (void)(LOut::fatal() << msg);
            break;
        }
        log_event(t, 6);
        g.at[t] = Released;
        g.steps_done[t]++;
    }
    g.at[t] = Finished;
}

static bool wait_until(const std::function<bool()>& f, int ms)
{
    auto end = std::chrono::steady_clock::now() + std::chrono::milliseconds(ms);
    while (!f())
    {
        if (std::chrono::steady_clock::now() > end)
            return false;
        std::this_thread::sleep_for(std::chrono::microseconds(20));
    }
    return true;
}

static J events_json()
{
    J ev = J::arr();
    std::lock_guard<std::mutex> l(g.emu);
    for (auto& e : g.events)
        ev.push(J::arr().push(J(e.t)).push(J(e.kind)).push(J(e.b)));
    return ev;
}

static J run(const J& c)
{
    g.reset();
    bool use_err = c["sink"].str() == "stderr";
    int n = static_cast<int>(c["threads"].num()), nrec = static_cast<int>(c["nrec"].num()), nbytes = static_cast<int>(c["nbytes"].num());
    unsigned seed = c.has("seed") ? static_cast<unsigned>(c["seed"].num()) : 1u;
    bool sched = c.has("steps");
    g.free_run = !sched;
    CheckingBuf buf;
    std::ostream& os = use_err ? std::cerr : std::cout;
    std::streambuf* old = os.rdbuf(&buf);
    std::vector<std::thread> th;
    for (int t = 1; t <= n; t++)
        th.emplace_back(worker, t, use_err, nrec, nbytes, seed);
    J o = J::obj();
    std::string fail;
    long failstep = -1;
    bool unreal = false;
    if (sched)
    {
        const J& steps = c["steps"];
        auto grant = [&](int t) { g.grants[t].fetch_add(1); };
        // a thread is past the sink's lock while it is at the door of, or inside, the stream buffer
        auto holding = [&](int u) {
            int a = g.at[u].load();
            // (AfterExit is not in the list: between leaving the buffer and returning from the sink the thread
            //  may or may not still own the lock, the harness cannot tell)
            return a == AtEnter || a == InBuf || a == AtExit || a == AtSyncEnter || a == InSync;
        };
        auto exclusion = [&]() -> std::string {
            if (g.concurrent.load())
                return "two threads inside the stream buffer at once";
            int first = 0;
            for (int u = 1; u <= n; u++)
                if (holding(u))
                {
                    if (first)
                        return "threads " + std::to_string(first) + " and " + std::to_string(u) + " are both past the sink's lock";
                    first = u;
                }
            return "";
        };
        auto someone_holding = [&]() {
            for (int u = 1; u <= n; u++)
                if (holding(u))
                    return true;
            return false;
        };
        std::vector<int> pending; // requests not yet granted: granted when they are sure to lose / meant to win the lock
        auto is_pending = [&](int t) {
            for (int x : pending)
                if (x == t)
                    return true;
            return false;
        };
        auto do_request = [&](int t) -> bool {
            long before = g.steps_done[t].load();
            if (!wait_until([&] { return g.at[t].load() == BeforeRequest; }, 20000))
                return false;
            grant(t);
            return wait_until([&] { return g.steps_done[t].load() > before; }, 20000);
        };
        for (std::size_t k = 0; k < steps.size() && fail.empty() && !unreal; k++)
        {
            const std::string a = steps[k]["a"].str();
            int t = static_cast<int>(steps[k]["t"].num());
            long before = g.steps_done[t].load();
            bool ok = true;
            if (a == "Request")
            {
                if (someone_holding())
                {
                    ok = do_request(t); // will block on the lock
                    std::this_thread::sleep_for(std::chrono::microseconds(300));
                }
                else
                    pending.push_back(t); // who wins a free lock is decided inside the library: decide it here instead
            }
            else if (a == "Acquire")
            {
                if (is_pending(t))
                {
                    // t should win the free lock; a thread that was already blocked on it may still beat t to it
                    ok = do_request(t) && wait_until(
                                              [&] {
                                                  for (int u = 1; u <= n; u++)
                                                      if (g.at[u].load() == AtEnter)
                                                      {
                                                          if (u != t)
                                                              unreal = true;
                                                          return true;
                                                      }
                                                  return false;
                                              },
                                              5000);
                    std::vector<int> rest;
                    for (int x : pending)
                        if (x != t)
                            rest.push_back(x);
                    pending.clear();
                    for (int x : rest)
                        if (ok)
                            ok = do_request(x); // these find the lock taken
                    std::this_thread::sleep_for(std::chrono::microseconds(300));
                }
            }
            else if (a == "Enter" || a == "Chunk" || a == "Exit" || a == "SyncExit")
            {
                At need = a == "Enter" ? AtEnter : a == "Chunk" ? InBuf : a == "Exit" ? AtExit : InSync;
                ok = wait_until(
                    [&] {
                        if (a == "Enter" && g.at[t].load() != AtEnter)
                            for (int u = 1; u <= n; u++)
                                if (u != t && g.at[u].load() == AtEnter)
                                {
                                    unreal = true; // the library handed the lock to another waiting thread: legal, but not this behaviour
                                    return true;
                                }
                        return g.at[t].load() == need && g.used[t].load() > g.grants[t].load();
                    },
                    5000);
                if (ok && !unreal)
                {
                    grant(t);
                    ok = wait_until([&] { return g.steps_done[t].load() > before; }, 20000);
                }
            }
            else if (a == "SyncEnter")
            {
                // the flush is optional in the specification: the thread may already have returned
                ok = wait_until([&] { int x = g.at[t].load(); return (x == AtSyncEnter && g.used[t].load() > g.grants[t].load()) || x == Released || x == Finished || x == BeforeRequest; }, 20000);
                if (ok && g.at[t].load() == AtSyncEnter)
                {
                    grant(t);
                    ok = wait_until([&] { return g.steps_done[t].load() > before; }, 20000);
                }
            }
            else if (a == "Release")
            {
                // drive the thread through an optional flush the behaviour did not mention
                ok = wait_until(
                    [&] {
                        int x = g.at[t].load();
                        if ((x == AtSyncEnter || x == InSync) && g.used[t].load() > g.grants[t].load())
                            grant(t);
                        return x == Released || x == Finished || x == BeforeRequest;
                    },
                    5000);
                std::this_thread::sleep_for(std::chrono::microseconds(200));
            }
            if (!ok)
            {
                fail = "step " + a + "(" + std::to_string(t) + ") of the behaviour did not happen within 20 s (thread is at " + std::to_string(g.at[t].load()) + ")";
                failstep = static_cast<long>(k);
                break;
            }
            std::string r = exclusion();
            if (!r.empty())
            {
                fail = r;
                failstep = static_cast<long>(k);
            }
        }
        if (fail.empty() && steps.size())
        {
            std::this_thread::sleep_for(std::chrono::milliseconds(2));
            std::string r = exclusion();
            if (!r.empty())
            {
                fail = r;
                failstep = static_cast<long>(steps.size()) - 1;
            }
        }
        g.free_run = true; // drain
    }
    bool joined = true;
    {
        // join with a watchdog: a lost wake-up / never released lock shows as a hang
        std::atomic<int> done{ 0 };
        std::thread joiner([&] {
            for (auto& x : th)
                x.join();
            done = 1;
        });
        joined = wait_until([&] { return done.load() == 1; }, 20000);
        if (!joined)
        {
            // cannot recover: report and leave the process
            vh::die_with("timeout", "threads did not finish (lock never released?)");
        }
        joiner.join();
    }
    os.rdbuf(old);
    o.set("outcome", "ok");
    o.set("fail", fail);
    o.set("unrealisable", J(unreal));
    o.set("failstep", J(failstep));
    o.set("concurrent", J(g.concurrent.load()));
    o.set("events", events_json());
    return o;
}

int main(int argc, char** argv)
{
    std::ios::sync_with_stdio(true);
    return vh::run_cases(argc, argv, run, 60);
}
