// Conformance driver for nitro::lang::enumerate / nitro::lang::reverse (C20).
// case: {"id":"<kind>_<cat>_<adaptor>","n":0..4,"write":bool}
// Every (container kind, value category, adaptor) combination is its own block guarded by HAVE_<id>: the check first
// compiles each block alone (-DONLY_<id>, syntax only) to learn which combinations the library offers, then builds the
// driver with exactly those.  Elements are registry-instrumented: reading a destroyed element is counted (dangling).
#include <common/vh.hpp>

#include <nitro/lang/enumerate.hpp>
#include <nitro/lang/fixed_vector.hpp>
#include <nitro/lang/reverse.hpp>

#include <array>
#include <list>
#include <map>
#include <set>
#include <vector>

using vh::J;

static std::set<const void*> g_live;
static long g_bad = 0;

struct RE
{
    int v;
    RE() : v(0)
    {
        g_live.insert(this);
    }
    RE(int x) : v(x)
    {
        g_live.insert(this);
    }
    RE(const RE& o) : v(o.get())
    {
        g_live.insert(this);
    }
    RE& operator=(const RE& o)
    {
        v = o.get();
        return *this;
    }
    ~RE()
    {
        g_live.erase(this);
    }
    int get() const
    {
        if (!g_live.count(this))
            ++g_bad;
        return v;
    }
    void bump()
    {
        if (!g_live.count(this))
            ++g_bad;
        ++v;
    }
};
static bool operator<(const RE& a, const RE& b)
{
    return a.v < b.v;
}

static int val(const RE& e)
{
    return e.get();
}
static int val(const std::pair<const int, RE>& e)
{
    return e.second.get();
}
static int val(const std::reference_wrapper<RE>& e)
{
    return e.get().get();
}
static int val(const std::reference_wrapper<const RE>& e)
{
    return e.get().get();
}
static void bump(RE& e)
{
    e.bump();
}
static void bump(std::pair<const int, RE>& e)
{
    e.second.bump();
}
static void bump(std::reference_wrapper<RE> e)
{
    e.get().bump();
}

struct Out
{
    J visited = J::arr();
    void push(std::size_t idx, int v)
    {
        visited.push(J::obj().set("idx", J(idx)).set("val", J(v)));
    }
};

// ---- container kinds ---------------------------------------------------------------------------------------------
struct VecK
{
    using C = std::vector<RE>;
    static C make(int n)
    {
        C c;
        for (int i = 1; i <= n; i++)
            c.emplace_back(10 * i);
        return c;
    }
};
struct ListK
{
    using C = std::list<RE>;
    static C make(int n)
    {
        C c;
        for (int i = 1; i <= n; i++)
            c.emplace_back(10 * i);
        return c;
    }
};
struct MapK
{
    using C = std::map<int, RE>;
    static C make(int n)
    {
        C c;
        for (int i = 1; i <= n; i++)
            c.emplace(i, RE(10 * i));
        return c;
    }
};
struct FvK
{
    using C = nitro::lang::fixed_vector<RE>;
    static C make(int n)
    {
        C c(static_cast<std::size_t>(n) + 1);
        for (int i = 1; i <= n; i++)
            c.emplace_back(10 * i);
        return c;
    }
};
template <std::size_t N>
struct ArrK
{
    using C = std::array<RE, N>;
    static C make(int)
    {
        C c;
        for (std::size_t i = 0; i < N; i++)
            c[i] = RE(10 * (static_cast<int>(i) + 1));
        return c;
    }
};

template <typename C>
static J contents(const C& c)
{
    J a = J::arr();
    for (auto& e : c)
        a.push(J(val(e)));
    return a;
}

// ---- the loops -------------------------------------------------------------------------------------------------------
template <typename K>
static J en_lv(int n, bool write)
{
    auto c = K::make(n);
    Out o;
    for (auto e : nitro::lang::enumerate(c))
    {
        o.push(e.index(), val(e.value()));
        if (write)
            bump(e.value());
    }
    return J::obj().set("visited", o.visited).set("after", contents(c));
}
template <typename K>
static J en_const(int n, bool)
{
    const auto c = K::make(n);
    Out o;
    for (auto e : nitro::lang::enumerate(c))
        o.push(e.index(), val(e.value()));
    return J::obj().set("visited", o.visited).set("after", contents(c));
}
template <typename K>
static J en_rv(int n, bool)
{
    Out o;
    for (auto e : nitro::lang::enumerate(K::make(n)))
        o.push(e.index(), val(e.value()));
    J after = J::arr();
    for (int i = 1; i <= n; i++)
        after.push(J(10 * i));
    return J::obj().set("visited", o.visited).set("after", after);
}
template <typename K>
static J re_lv(int n, bool write)
{
    auto c = K::make(n);
    Out o;
    for (auto& x : nitro::lang::reverse(c))
    {
        o.push(0, val(x));
        if (write)
            bump(x);
    }
    return J::obj().set("visited", o.visited).set("after", contents(c));
}
template <typename K>
static J re_const(int n, bool)
{
    const auto c = K::make(n);
    Out o;
    for (const auto& x : nitro::lang::reverse(c))
        o.push(0, val(x));
    return J::obj().set("visited", o.visited).set("after", contents(c));
}
template <typename K>
static J re_rv(int n, bool)
{
    Out o;
    for (const auto& x : nitro::lang::reverse(K::make(n)))
        o.push(0, val(x));
    J after = J::arr();
    for (int i = 1; i <= n; i++)
        after.push(J(10 * i));
    return J::obj().set("visited", o.visited).set("after", after);
}

#define BY_N(FN, n, w)                                                                                                 \
    ((n) == 0 ? FN<ArrK<0>>(n, w) : (n) == 1 ? FN<ArrK<1>>(n, w) : (n) == 2 ? FN<ArrK<2>>(n, w) : (n) == 3 ? FN<ArrK<3>>(n, w) : FN<ArrK<4>>(n, w))

// built-in arrays
template <std::size_t N>
static J carr_en_lv(bool write)
{
    RE c[N];
    for (std::size_t i = 0; i < N; i++)
        c[i] = RE(10 * (static_cast<int>(i) + 1));
    Out o;
    for (auto e : nitro::lang::enumerate(c))
    {
        o.push(e.index(), val(e.value()));
        if (write)
            bump(e.value());
    }
    J after = J::arr();
    for (std::size_t i = 0; i < N; i++)
        after.push(J(c[i].get()));
    return J::obj().set("visited", o.visited).set("after", after);
}
template <std::size_t N>
static J carr_en_const(bool)
{
    RE c0[N];
    for (std::size_t i = 0; i < N; i++)
        c0[i] = RE(10 * (static_cast<int>(i) + 1));
    const RE(&c)[N] = c0;
    Out o;
    for (auto e : nitro::lang::enumerate(c))
        o.push(e.index(), val(e.value()));
    J after = J::arr();
    for (std::size_t i = 0; i < N; i++)
        after.push(J(c[i].get()));
    return J::obj().set("visited", o.visited).set("after", after);
}
template <std::size_t N>
static J carr_re_lv(bool write)
{
    RE c[N];
    for (std::size_t i = 0; i < N; i++)
        c[i] = RE(10 * (static_cast<int>(i) + 1));
    Out o;
    for (auto x : nitro::lang::reverse(c))
    {
        o.push(0, val(x));
        if (write)
            bump(x);
    }
    J after = J::arr();
    for (std::size_t i = 0; i < N; i++)
        after.push(J(c[i].get()));
    return J::obj().set("visited", o.visited).set("after", after);
}
template <std::size_t N>
static J carr_re_const(bool)
{
    RE c0[N];
    for (std::size_t i = 0; i < N; i++)
        c0[i] = RE(10 * (static_cast<int>(i) + 1));
    const RE(&c)[N] = c0;
    Out o;
    for (auto x : nitro::lang::reverse(c))
        o.push(0, val(x));
    J after = J::arr();
    for (std::size_t i = 0; i < N; i++)
        after.push(J(c[i].get()));
    return J::obj().set("visited", o.visited).set("after", after);
}
#define CARR_BY_N(FN, n, w) ((n) == 1 ? FN<1>(w) : (n) == 2 ? FN<2>(w) : (n) == 3 ? FN<3>(w) : FN<4>(w))

// initializer lists (always temporaries)
static J ilist_en(int n)
{
    Out o;
    switch (n)
    {
    case 0:
        for (auto e : nitro::lang::enumerate(std::initializer_list<RE>{}))
            o.push(e.index(), val(e.value()));
        break;
    case 1:
        for (auto e : nitro::lang::enumerate({ RE(10) }))
            o.push(e.index(), val(e.value()));
        break;
    case 2:
        for (auto e : nitro::lang::enumerate({ RE(10), RE(20) }))
            o.push(e.index(), val(e.value()));
        break;
    case 3:
        for (auto e : nitro::lang::enumerate({ RE(10), RE(20), RE(30) }))
            o.push(e.index(), val(e.value()));
        break;
    default:
        for (auto e : nitro::lang::enumerate({ RE(10), RE(20), RE(30), RE(40) }))
            o.push(e.index(), val(e.value()));
        break;
    }
    J after = J::arr();
    for (int i = 1; i <= n; i++)
        after.push(J(10 * i));
    return J::obj().set("visited", o.visited).set("after", after);
}
static J ilist_re(int n)
{
    Out o;
    switch (n)
    {
    case 0:
        for (const auto& x : nitro::lang::reverse(std::initializer_list<RE>{}))
            o.push(0, val(x));
        break;
    case 1:
        for (const auto& x : nitro::lang::reverse({ RE(10) }))
            o.push(0, val(x));
        break;
    case 2:
        for (const auto& x : nitro::lang::reverse({ RE(10), RE(20) }))
            o.push(0, val(x));
        break;
    case 3:
        for (const auto& x : nitro::lang::reverse({ RE(10), RE(20), RE(30) }))
            o.push(0, val(x));
        break;
    default:
        for (const auto& x : nitro::lang::reverse({ RE(10), RE(20), RE(30), RE(40) }))
            o.push(0, val(x));
        break;
    }
    J after = J::arr();
    for (int i = 1; i <= n; i++)
        after.push(J(10 * i));
    return J::obj().set("visited", o.visited).set("after", after);
}

#define WANT(id) (defined(HAVE_##id) || defined(ONLY_##id))

static J dispatch(const std::string& id, int n, bool w)
{
    (void)n;
    (void)w;
#define STD_KIND(name, K)                                                                                              \
    if (id == #name "_lv_en")                                                                                          \
        return IF_##name##_lv_en(en_lv<K>(n, w));                                                                      \
    if (id == #name "_const_en")                                                                                       \
        return IF_##name##_const_en(en_const<K>(n, w));                                                                \
    if (id == #name "_rv_en")                                                                                          \
        return IF_##name##_rv_en(en_rv<K>(n, w));                                                                      \
    if (id == #name "_lv_re")                                                                                          \
        return IF_##name##_lv_re(re_lv<K>(n, w));                                                                      \
    if (id == #name "_const_re")                                                                                       \
        return IF_##name##_const_re(re_const<K>(n, w));                                                                \
    if (id == #name "_rv_re")                                                                                          \
        return IF_##name##_rv_re(re_rv<K>(n, w));
#include "gen_ranges_guards.inc"
    STD_KIND(vec, VecK)
    STD_KIND(list, ListK)
    STD_KIND(map, MapK)
    STD_KIND(fv, FvK)
    if (id == "arr_lv_en")
        return IF_arr_lv_en(BY_N(en_lv, n, w));
    if (id == "arr_const_en")
        return IF_arr_const_en(BY_N(en_const, n, w));
    if (id == "arr_rv_en")
        return IF_arr_rv_en(BY_N(en_rv, n, w));
    if (id == "arr_lv_re")
        return IF_arr_lv_re(BY_N(re_lv, n, w));
    if (id == "arr_const_re")
        return IF_arr_const_re(BY_N(re_const, n, w));
    if (id == "arr_rv_re")
        return IF_arr_rv_re(BY_N(re_rv, n, w));
    if (id == "carr_lv_en")
        return IF_carr_lv_en(CARR_BY_N(carr_en_lv, n, w));
    if (id == "carr_const_en")
        return IF_carr_const_en(CARR_BY_N(carr_en_const, n, w));
    if (id == "carr_lv_re")
        return IF_carr_lv_re(CARR_BY_N(carr_re_lv, n, w));
    if (id == "carr_const_re")
        return IF_carr_const_re(CARR_BY_N(carr_re_const, n, w));
    if (id == "ilist_rv_en")
        return IF_ilist_rv_en(ilist_en(n));
    if (id == "ilist_rv_re")
        return IF_ilist_rv_re(ilist_re(n));
    return J::obj().set("outcome", "unknown-id");
}

static J run(const J& c)
{
    g_bad = 0;
    J o = dispatch(c["id"].str(), static_cast<int>(c["n"].num()), c["write"].b);
    if (!o.has("outcome"))
        o.set("outcome", "ok");
    o.set("bad", J(g_bad));
    o.set("leaked", J(static_cast<long>(g_live.size())));
    g_live.clear();
    return o;
}

int main(int argc, char** argv)
{
    return vh::run_cases(argc, argv, run, 10);
}
