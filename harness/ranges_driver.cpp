// Conformance driver for nitro::lang::enumerate / nitro::lang::reverse (C20).
// case: {"id":"<kind>_<cat>_<adaptor>","n":0..4,"write":bool}
// Every (container kind, value category, adaptor) combination is its own block guarded by HAVE_<id>: the check first
// compiles each block alone (-DONLY_<id>, syntax only) to learn which combinations the library offers, then builds the
// driver with exactly those.  Elements are registry-instrumented: reading a destroyed element is counted (dangling).
#include <common/vh.hpp>

#include <nitro/lang/enumerate.hpp>
#include <nitro/lang/fixed_vector.hpp>
#include <nitro/lang/reverse.hpp>

#include <array>
#include <list>
#include <map>
#include <memory>
#include <set>
#include <vector>

using vh::J;

static std::set<const void*> g_live;
static long g_bad = 0;

struct RE
{
    int v;
    RE() : v(0)
    {
        g_live.insert(this);
    }
    RE(int x) : v(x)
    {
        g_live.insert(this);
    }
    RE(const RE& o) : v(o.get())
    {
        g_live.insert(this);
    }
    RE& operator=(const RE& o)
    {
        v = o.get();
        return *this;
    }
    ~RE()
    {
        g_live.erase(this);
    }
    int get() const
    {
        if (!g_live.count(this))
            ++g_bad;
        return v;
    }
    void bump()
    {
        if (!g_live.count(this))
            ++g_bad;
        ++v;
    }
};
static bool operator<(const RE& a, const RE& b)
{
    return a.v < b.v;
}

static int val(const RE& e)
{
    return e.get();
}
static int val(const std::pair<const int, RE>& e)
{
    return e.second.get();
}
static int val(const std::reference_wrapper<RE>& e)
{
    return e.get().get();
}
static int val(const std::reference_wrapper<const RE>& e)
{
    return e.get().get();
}
static void bump(RE& e)
{
    e.bump();
}
static void bump(std::pair<const int, RE>& e)
{
    e.second.bump();
}
static void bump(std::reference_wrapper<RE> e)
{
    e.get().bump();
}

static void bump_by(RE& e, int d)
{
    e.v += d;
}
static void bump_by(std::pair<const int, RE>& e, int d)
{
    e.second.v += d;
}

// The loops below are written the way the language defines a range-based for ([stmt.ranged]: begin and end taken once,
// `decl = *it` at the top of the body), so that the increment can also be spelled `it++`: a caller who walks the range
// by hand may use either form and must see the same thing.  g_style: 0 = `++it` (what a range-for does), 1 = `it++`.
static int g_style = 0;
template <typename It>
static void vh_step(It& it)
{
    if (g_style == 1)
        it++;
    else
        ++it;
}
#define VH_FOR(DECL, R)                                                                                                \
    for (auto vh_it = (R).begin(), vh_end = (R).end(); vh_it != vh_end; vh_step(vh_it))                               \
        for (bool vh_once = true; vh_once;)                                                                            \
            for (DECL = *vh_it; vh_once; vh_once = false)

struct Out
{
    J visited = J::arr();
    void push(std::size_t idx, int v)
    {
        visited.push(J::obj().set("idx", J(idx)).set("val", J(v)));
    }
};

// ---- container kinds ---------------------------------------------------------------------------------------------
struct VecK
{
    using C = std::vector<RE>;
    static C make(int n)
    {
        C c;
        for (int i = 1; i <= n; i++)
            c.emplace_back(10 * i);
        return c;
    }
};
struct ListK
{
    using C = std::list<RE>;
    static C make(int n)
    {
        C c;
        for (int i = 1; i <= n; i++)
            c.emplace_back(10 * i);
        return c;
    }
};
struct MapK
{
    using C = std::map<int, RE>;
    static C make(int n)
    {
        C c;
        for (int i = 1; i <= n; i++)
            c.emplace(i, RE(10 * i));
        return c;
    }
};
struct FvK
{
    using C = nitro::lang::fixed_vector<RE>;
    static C make(int n)
    {
        C c(static_cast<std::size_t>(n) + 1);
        for (int i = 1; i <= n; i++)
            c.emplace_back(10 * i);
        return c;
    }
};
template <std::size_t N>
struct ArrK
{
    using C = std::array<RE, N>;
    static C make(int)
    {
        C c;
        for (std::size_t i = 0; i < N; i++)
            c[i] = RE(10 * (static_cast<int>(i) + 1));
        return c;
    }
};

template <typename C>
static J contents(const C& c)
{
    J a = J::arr();
    for (auto& e : c)
        a.push(J(val(e)));
    return a;
}

// ---- how the range object reaches the loop ----------------------------------------------------------------------
// 0 direct (what a range-for does: auto&& r = expr), 1 copy-constructed, 2 move-constructed, 3 assigned over another
// range of the same type; in 1-3 the original range object is destroyed before the loop runs.
template <typename Make, typename MakeOther, typename Body>
static void with_range(int handoff, Make make, MakeOther make_other, Body body)
{
    using R = decltype(make());
    if (handoff == 0)
    {
        auto&& r = make();
        body(r);
    }
    else if (handoff == 1)
    {
        auto p = std::make_unique<R>(make());
        R r2(*p);
        p.reset();
        body(r2);
    }
    else if (handoff == 2)
    {
        auto p = std::make_unique<R>(make());
        R r2(std::move(*p));
        p.reset();
        body(r2);
    }
    else
    {
        auto p = std::make_unique<R>(make());
        R r2(make_other());
        r2 = *p;
        p.reset();
        body(r2);
    }
}

template <typename C>
static void scramble(C& c)
{
    for (auto& e : c)
        bump_by(e, 900);
}

// const temporaries: what a function declared to return `const T` yields.  The range type may then have a const
// member, so it is not required to be assignable: handoff 3 is not used with these.
template <typename K>
static const typename K::C make_const(int n, bool scrambled)
{
    auto c = K::make(n);
    if (scrambled)
        scramble(c);
    return c;
}
template <typename Make, typename Body>
static void with_range_noassign(int handoff, Make make, Body body)
{
    using R = decltype(make());
    if (handoff == 1)
    {
        auto p = std::make_unique<R>(make());
        R r2(*p);
        p.reset();
        body(r2);
    }
    else if (handoff == 2)
    {
        auto p = std::make_unique<R>(make());
        R r2(std::move(*p));
        p.reset();
        body(r2);
    }
    else
    {
        auto&& r = make();
        body(r);
    }
}

// ---- the loops -------------------------------------------------------------------------------------------------------
template <typename K>
static J en_lv(int n, bool write, int h)
{
    auto c = K::make(n);
    auto other = K::make(n);
    scramble(other);
    Out o;
    with_range(
        h, [&] { return nitro::lang::enumerate(c); }, [&] { return nitro::lang::enumerate(other); },
        [&](auto& r) {
            VH_FOR(auto e, r)
            {
                o.push(e.index(), val(e.value()));
                if (write)
                    bump(e.value());
            }
        });
    return J::obj().set("visited", o.visited).set("after", contents(c));
}
template <typename K>
static J en_const(int n, bool, int h)
{
    const auto c = K::make(n);
    auto other0 = K::make(n);
    scramble(other0);
    const auto other = other0;
    Out o;
    with_range(
        h, [&] { return nitro::lang::enumerate(c); }, [&] { return nitro::lang::enumerate(other); },
        [&](auto& r) {
            VH_FOR(auto e, r)
                o.push(e.index(), val(e.value()));
        });
    return J::obj().set("visited", o.visited).set("after", contents(c));
}
template <typename K>
static J en_rv(int n, bool, int h)
{
    Out o;
    with_range(
        h, [&] { return nitro::lang::enumerate(K::make(n)); },
        [&] {
            auto t = K::make(n);
            scramble(t);
            return nitro::lang::enumerate(std::move(t));
        },
        [&](auto& r) {
            VH_FOR(auto e, r)
                o.push(e.index(), val(e.value()));
        });
    J after = J::arr();
    for (int i = 1; i <= n; i++)
        after.push(J(10 * i));
    return J::obj().set("visited", o.visited).set("after", after);
}
template <typename K>
static J re_lv(int n, bool write, int h)
{
    auto c = K::make(n);
    auto other = K::make(n);
    scramble(other);
    Out o;
    with_range(
        h, [&] { return nitro::lang::reverse(c); }, [&] { return nitro::lang::reverse(other); },
        [&](auto& r) {
            VH_FOR(auto& x, r)
            {
                o.push(0, val(x));
                if (write)
                    bump(x);
            }
        });
    return J::obj().set("visited", o.visited).set("after", contents(c));
}
template <typename K>
static J re_const(int n, bool, int h)
{
    const auto c = K::make(n);
    auto other0 = K::make(n);
    scramble(other0);
    const auto other = other0;
    Out o;
    with_range(
        h, [&] { return nitro::lang::reverse(c); }, [&] { return nitro::lang::reverse(other); },
        [&](auto& r) {
            VH_FOR(const auto& x, r)
                o.push(0, val(x));
        });
    return J::obj().set("visited", o.visited).set("after", contents(c));
}
template <typename K>
static J re_rv(int n, bool, int h)
{
    Out o;
    with_range(
        h, [&] { return nitro::lang::reverse(K::make(n)); },
        [&] {
            auto t = K::make(n);
            scramble(t);
            return nitro::lang::reverse(std::move(t));
        },
        [&](auto& r) {
            VH_FOR(const auto& x, r)
                o.push(0, val(x));
        });
    J after = J::arr();
    for (int i = 1; i <= n; i++)
        after.push(J(10 * i));
    return J::obj().set("visited", o.visited).set("after", after);
}

template <typename K>
static J en_crv(int n, bool, int h)
{
    Out o;
    with_range_noassign(
        h, [&] { return nitro::lang::enumerate(make_const<K>(n, false)); },
        [&](auto& r) {
            VH_FOR(auto e, r)
                o.push(e.index(), val(e.value()));
        });
    J after = J::arr();
    for (int i = 1; i <= n; i++)
        after.push(J(10 * i));
    return J::obj().set("visited", o.visited).set("after", after);
}
template <typename K>
static J re_crv(int n, bool, int h)
{
    Out o;
    with_range_noassign(
        h, [&] { return nitro::lang::reverse(make_const<K>(n, false)); },
        [&](auto& r) {
            VH_FOR(const auto& x, r)
                o.push(0, val(x));
        });
    J after = J::arr();
    for (int i = 1; i <= n; i++)
        after.push(J(10 * i));
    return J::obj().set("visited", o.visited).set("after", after);
}

#define BY_N(FN, n, w, h)                                                                                              \
    ((n) == 0 ? FN<ArrK<0>>(n, w, h) : (n) == 1 ? FN<ArrK<1>>(n, w, h) : (n) == 2 ? FN<ArrK<2>>(n, w, h) : (n) == 3 ? FN<ArrK<3>>(n, w, h) : FN<ArrK<4>>(n, w, h))

// built-in arrays
template <std::size_t N>
static void fill(RE (&c)[N], int base)
{
    for (std::size_t i = 0; i < N; i++)
        c[i] = RE(base + 10 * (static_cast<int>(i) + 1));
}
template <std::size_t N>
static J after_of(const RE (&c)[N])
{
    J after = J::arr();
    for (std::size_t i = 0; i < N; i++)
        after.push(J(c[i].get()));
    return after;
}
template <std::size_t N>
static J carr_en_lv(bool write, int h)
{
    RE c[N], other[N];
    fill(c, 0);
    fill(other, 900);
    Out o;
    with_range(
        h, [&] { return nitro::lang::enumerate(c); }, [&] { return nitro::lang::enumerate(other); },
        [&](auto& r) {
            VH_FOR(auto e, r)
            {
                o.push(e.index(), val(e.value()));
                if (write)
                    bump(e.value());
            }
        });
    return J::obj().set("visited", o.visited).set("after", after_of(c));
}
template <std::size_t N>
static J carr_en_const(bool, int h)
{
    RE c0[N], other0[N];
    fill(c0, 0);
    fill(other0, 900);
    const RE(&c)[N] = c0;
    const RE(&other)[N] = other0;
    Out o;
    with_range(
        h, [&] { return nitro::lang::enumerate(c); }, [&] { return nitro::lang::enumerate(other); },
        [&](auto& r) {
            VH_FOR(auto e, r)
                o.push(e.index(), val(e.value()));
        });
    return J::obj().set("visited", o.visited).set("after", after_of(c0));
}
template <std::size_t N>
static J carr_re_lv(bool write, int h)
{
    RE c[N], other[N];
    fill(c, 0);
    fill(other, 900);
    Out o;
    with_range(
        h, [&] { return nitro::lang::reverse(c); }, [&] { return nitro::lang::reverse(other); },
        [&](auto& r) {
            VH_FOR(auto x, r)
            {
                o.push(0, val(x));
                if (write)
                    bump(x);
            }
        });
    return J::obj().set("visited", o.visited).set("after", after_of(c));
}
template <std::size_t N>
static J carr_re_const(bool, int h)
{
    RE c0[N], other0[N];
    fill(c0, 0);
    fill(other0, 900);
    const RE(&c)[N] = c0;
    const RE(&other)[N] = other0;
    Out o;
    with_range(
        h, [&] { return nitro::lang::reverse(c); }, [&] { return nitro::lang::reverse(other); },
        [&](auto& r) {
            VH_FOR(auto x, r)
                o.push(0, val(x));
        });
    return J::obj().set("visited", o.visited).set("after", after_of(c0));
}
#define CARR_BY_N(FN, n, w, h) ((n) == 1 ? FN<1>(w, h) : (n) == 2 ? FN<2>(w, h) : (n) == 3 ? FN<3>(w, h) : FN<4>(w, h))

// initializer lists (always temporaries)
#define ILIST_CASES(ADAPT, LOOPVAR, PUSH)                                                                              \
    auto body = [&](auto& r) {                                                                                         \
        for (LOOPVAR : r)                                                                                              \
            PUSH;                                                                                                      \
    };                                                                                                                 \
    switch (n)                                                                                                         \
    {                                                                                                                  \
    case 0:                                                                                                            \
        with_range(h, [&] { return ADAPT(std::initializer_list<RE>{}); }, [&] { return ADAPT(std::initializer_list<RE>{}); }, body); \
        break;                                                                                                         \
    case 1:                                                                                                            \
        with_range(h, [&] { return ADAPT({ RE(10) }); }, [&] { return ADAPT({ RE(910) }); }, body);                    \
        break;                                                                                                         \
    case 2:                                                                                                            \
        with_range(h, [&] { return ADAPT({ RE(10), RE(20) }); }, [&] { return ADAPT({ RE(910), RE(920) }); }, body);   \
        break;                                                                                                         \
    case 3:                                                                                                            \
        with_range(h, [&] { return ADAPT({ RE(10), RE(20), RE(30) }); }, [&] { return ADAPT({ RE(910), RE(920), RE(930) }); }, body); \
        break;                                                                                                         \
    default:                                                                                                           \
        with_range(h, [&] { return ADAPT({ RE(10), RE(20), RE(30), RE(40) }); }, [&] { return ADAPT({ RE(910), RE(920), RE(930), RE(940) }); }, body); \
        break;                                                                                                         \
    }
static J ilist_en(int n, int h)
{
    Out o;
    ILIST_CASES(nitro::lang::enumerate, auto e, o.push(e.index(), val(e.value())))
    J after = J::arr();
    for (int i = 1; i <= n; i++)
        after.push(J(10 * i));
    return J::obj().set("visited", o.visited).set("after", after);
}
static J ilist_re(int n, int h)
{
    Out o;
    ILIST_CASES(nitro::lang::reverse, const auto& x, o.push(0, val(x)))
    J after = J::arr();
    for (int i = 1; i <= n; i++)
        after.push(J(10 * i));
    return J::obj().set("visited", o.visited).set("after", after);
}

#define WANT(id) (defined(HAVE_##id) || defined(ONLY_##id))

static J dispatch(const std::string& id, int n, bool w, int h)
{
    (void)n;
    (void)w;
    (void)h;
#define STD_KIND(name, K)                                                                                              \
    if (id == #name "_lv_en")                                                                                          \
        return IF_##name##_lv_en(en_lv<K>(n, w, h));                                                                      \
    if (id == #name "_const_en")                                                                                       \
        return IF_##name##_const_en(en_const<K>(n, w, h));                                                                \
    if (id == #name "_rv_en")                                                                                          \
        return IF_##name##_rv_en(en_rv<K>(n, w, h));                                                                      \
    if (id == #name "_lv_re")                                                                                          \
        return IF_##name##_lv_re(re_lv<K>(n, w, h));                                                                      \
    if (id == #name "_const_re")                                                                                       \
        return IF_##name##_const_re(re_const<K>(n, w, h));                                                                \
    if (id == #name "_rv_re")                                                                                          \
        return IF_##name##_rv_re(re_rv<K>(n, w, h));                                                                      \
    if (id == #name "_crv_en")                                                                                         \
        return IF_##name##_crv_en(en_crv<K>(n, w, h));                                                                    \
    if (id == #name "_crv_re")                                                                                         \
        return IF_##name##_crv_re(re_crv<K>(n, w, h));
#include "gen_ranges_guards.inc"
    STD_KIND(vec, VecK)
    STD_KIND(list, ListK)
    STD_KIND(map, MapK)
    STD_KIND(fv, FvK)
    if (id == "arr_lv_en")
        return IF_arr_lv_en(BY_N(en_lv, n, w, h));
    if (id == "arr_const_en")
        return IF_arr_const_en(BY_N(en_const, n, w, h));
    if (id == "arr_rv_en")
        return IF_arr_rv_en(BY_N(en_rv, n, w, h));
    if (id == "arr_lv_re")
        return IF_arr_lv_re(BY_N(re_lv, n, w, h));
    if (id == "arr_const_re")
        return IF_arr_const_re(BY_N(re_const, n, w, h));
    if (id == "arr_rv_re")
        return IF_arr_rv_re(BY_N(re_rv, n, w, h));
    if (id == "arr_crv_en")
        return IF_arr_crv_en(BY_N(en_crv, n, w, h));
    if (id == "arr_crv_re")
        return IF_arr_crv_re(BY_N(re_crv, n, w, h));
    if (id == "carr_lv_en")
        return IF_carr_lv_en(CARR_BY_N(carr_en_lv, n, w, h));
    if (id == "carr_const_en")
        return IF_carr_const_en(CARR_BY_N(carr_en_const, n, w, h));
    if (id == "carr_lv_re")
        return IF_carr_lv_re(CARR_BY_N(carr_re_lv, n, w, h));
    if (id == "carr_const_re")
        return IF_carr_const_re(CARR_BY_N(carr_re_const, n, w, h));
    if (id == "ilist_rv_en")
        return IF_ilist_rv_en(ilist_en(n, h));
    if (id == "ilist_rv_re")
        return IF_ilist_rv_re(ilist_re(n, h));
    return J::obj().set("outcome", "unknown-id");
}

static J run(const J& c)
{
    g_bad = 0;
    g_style = (c.has("style") && c["style"].str() == "post") ? 1 : 0;
    int h = 0;
    if (c.has("handoff"))
    {
        const std::string hs = c["handoff"].str();
        h = hs == "copy" ? 1 : hs == "move" ? 2 : hs == "assign" ? 3 : 0;
    }
    J o = dispatch(c["id"].str(), static_cast<int>(c["n"].num()), c["write"].b, h);
    if (!o.has("outcome"))
        o.set("outcome", "ok");
    o.set("bad", J(g_bad));
    o.set("leaked", J(static_cast<long>(g_live.size())));
    g_live.clear();
    return o;
}

int main(int argc, char** argv)
{
    return vh::run_cases(argc, argv, run, 10);
}
