// Common plumbing of the conformance drivers: a minimal JSON value with reader and writer,
// NDJSON case input / observation output, and the handlers that turn a crash, a sanitizer
// report, std::terminate or a hang into an *observed outcome* of the current case.
//
// A driver is always run as:   driver <cases.ndjson> <obs.ndjson> [skip]
// For every input line i >= skip it writes exactly one output line  {"i": i, ...observation}.
// If the process dies while working on case i, the handlers below write
// {"i": i, "outcome": "crash"|"timeout", "why": ...} and _exit(3); the Python side restarts the
// driver with skip = i + 1.
#pragma once

#include <cstdint>
#include <cstdio>
#include <cstdlib>
#include <cstring>
#include <exception>
#include <fstream>
#include <functional>
#include <map>
#include <memory>
#include <string>
#include <vector>

#include <csignal>
#include <fcntl.h>
#include <unistd.h>

#if defined(__has_feature)
#if __has_feature(address_sanitizer)
#define VH_ASAN 1
#endif
#endif
#if defined(__SANITIZE_ADDRESS__)
#define VH_ASAN 1
#endif

#ifdef VH_ASAN
extern "C" void __sanitizer_set_death_callback(void (*)(void));
#endif

namespace vh
{
struct J;
using JP = std::shared_ptr<J>;

struct J
{
    enum K
    {
        Null,
        Bool,
        Int,
        Str,
        Arr,
        Obj
    } k = Null;
    bool b = false;
    long long i = 0;
    std::string s;
    std::vector<J> a;
    std::vector<std::pair<std::string, J>> o;

    J() = default;
    J(bool v) : k(Bool), b(v)
    {
    }
    J(int v) : k(Int), i(v)
    {
    }
    J(long v) : k(Int), i(v)
    {
    }
    J(long long v) : k(Int), i(v)
    {
    }
    J(unsigned long v) : k(Int), i(static_cast<long long>(v))
    {
    }
    J(unsigned v) : k(Int), i(v)
    {
    }
    J(const char* v) : k(Str), s(v)
    {
    }
    J(const std::string& v) : k(Str), s(v)
    {
    }
    static J arr()
    {
        J j;
        j.k = Arr;
        return j;
    }
    static J obj()
    {
        J j;
        j.k = Obj;
        return j;
    }
    J& push(const J& v)
    {
        k = Arr;
        a.push_back(v);
        return *this;
    }
    J& set(const std::string& key, const J& v)
    {
        k = Obj;
        for (auto& kv : o)
            if (kv.first == key)
            {
                kv.second = v;
                return *this;
            }
        o.emplace_back(key, v);
        return *this;
    }
    bool has(const std::string& key) const
    {
        for (auto& kv : o)
            if (kv.first == key)
                return true;
        return false;
    }
    const J& at(const std::string& key) const
    {
        for (auto& kv : o)
            if (kv.first == key)
                return kv.second;
        fprintf(stderr, "vh: missing key %s\n", key.c_str());
        _exit(2);
    }
    const J& operator[](const std::string& key) const
    {
        return at(key);
    }
    const J& operator[](std::size_t idx) const
    {
        return a.at(idx);
    }
    std::size_t size() const
    {
        return k == Arr ? a.size() : o.size();
    }
    long long num() const
    {
        return i;
    }
    const std::string& str() const
    {
        return s;
    }

    // byte strings travel as arrays of small integers
    static J bytes(const std::string& v)
    {
        J j = arr();
        for (unsigned char c : v)
            j.a.emplace_back(static_cast<int>(c));
        return j;
    }
    std::string as_bytes() const
    {
        std::string r;
        for (auto& e : a)
            r.push_back(static_cast<char>(e.i));
        return r;
    }
    static J bytes_list(const std::vector<std::string>& v)
    {
        J j = arr();
        for (auto& e : v)
            j.a.push_back(bytes(e));
        return j;
    }
    std::vector<std::string> as_bytes_list() const
    {
        std::vector<std::string> r;
        for (auto& e : a)
            r.push_back(e.as_bytes());
        return r;
    }

    void write(std::string& out) const
    {
        switch (k)
        {
        case Null:
            out += "null";
            break;
        case Bool:
            out += b ? "true" : "false";
            break;
        case Int:
            out += std::to_string(i);
            break;
        case Str:
            out += '"';
            for (unsigned char c : s)
            {
                if (c == '"')
                    out += "\\\"";
                else if (c == '\\')
                    out += "\\\\";
                else if (c == '\n')
                    out += "\\n";
                else if (c == '\t')
                    out += "\\t";
                else if (c == '\r')
                    out += "\\r";
                else if (c < 0x20 || c >= 0x7f)
                {
                    char buf[8];
                    snprintf(buf, sizeof buf, "\\u%04x", c);
                    out += buf;
                }
                else
                    out += static_cast<char>(c);
            }
            out += '"';
            break;
        case Arr:
            out += '[';
            for (std::size_t n = 0; n < a.size(); n++)
            {
                if (n)
                    out += ',';
                a[n].write(out);
            }
            out += ']';
            break;
        case Obj:
            out += '{';
            for (std::size_t n = 0; n < o.size(); n++)
            {
                if (n)
                    out += ',';
                J(o[n].first).write(out);
                out += ':';
                o[n].second.write(out);
            }
            out += '}';
            break;
        }
    }
    std::string dump() const
    {
        std::string r;
        write(r);
        return r;
    }
};

struct Parser
{
    const char* p;
    const char* e;
    void ws()
    {
        while (p < e && (*p == ' ' || *p == '\n' || *p == '\t' || *p == '\r'))
            ++p;
    }
    [[noreturn]] void fail(const char* m)
    {
        fprintf(stderr, "vh json: %s near '%.20s'\n", m, p);
        _exit(2);
    }
    J parse()
    {
        ws();
        if (p >= e)
            fail("eof");
        if (*p == '{')
        {
            J j = J::obj();
            ++p;
            ws();
            if (*p == '}')
            {
                ++p;
                return j;
            }
            while (true)
            {
                ws();
                J key = parse();
                ws();
                if (*p != ':')
                    fail("colon");
                ++p;
                J v = parse();
                j.o.emplace_back(key.s, v);
                ws();
                if (*p == ',')
                {
                    ++p;
                    continue;
                }
                if (*p == '}')
                {
                    ++p;
                    return j;
                }
                fail("obj");
            }
        }
        if (*p == '[')
        {
            J j = J::arr();
            ++p;
            ws();
            if (*p == ']')
            {
                ++p;
                return j;
            }
            while (true)
            {
                j.a.push_back(parse());
                ws();
                if (*p == ',')
                {
                    ++p;
                    continue;
                }
                if (*p == ']')
                {
                    ++p;
                    return j;
                }
                fail("arr");
            }
        }
        if (*p == '"')
        {
            J j;
            j.k = J::Str;
            ++p;
            while (p < e && *p != '"')
            {
                if (*p == '\\')
                {
                    ++p;
                    switch (*p)
                    {
                    case 'n':
                        j.s += '\n';
                        break;
                    case 't':
                        j.s += '\t';
                        break;
                    case 'r':
                        j.s += '\r';
                        break;
                    case 'b':
                        j.s += '\b';
                        break;
                    case 'f':
                        j.s += '\f';
                        break;
                    case 'u':
                    {
                        unsigned v = 0;
                        for (int n = 0; n < 4; n++)
                        {
                            ++p;
                            v = v * 16 + (isdigit(*p) ? *p - '0' : (tolower(*p) - 'a' + 10));
                        }
                        j.s += static_cast<char>(v & 0xff);
                        break;
                    }
                    default:
                        j.s += *p;
                    }
                    ++p;
                }
                else
                    j.s += *p++;
            }
            ++p;
            return j;
        }
        if (!strncmp(p, "true", 4))
        {
            p += 4;
            return J(true);
        }
        if (!strncmp(p, "false", 5))
        {
            p += 5;
            return J(false);
        }
        if (!strncmp(p, "null", 4))
        {
            p += 4;
            return J();
        }
        char* end = nullptr;
        long long v = strtoll(p, &end, 10);
        if (end == p)
            fail("value");
        p = end;
        return J(v);
    }
};

inline J parse(const std::string& line)
{
    Parser ps{ line.data(), line.data() + line.size() };
    return ps.parse();
}

// ---------------------------------------------------------------------------------------------
// current-case bookkeeping and death handlers

struct State
{
    int fd = -1;
    long long cur = -1;
    // partial observation of the current case, flushed by the death handlers so that steps of a
    // history that completed before the crash are not lost
    char partial[1 << 16];
    std::size_t partial_len = 0;
    bool dying = false;
};

inline State& st()
{
    static State s;
    return s;
}

inline void write_all(int fd, const char* b, std::size_t n)
{
    while (n)
    {
        ssize_t w = ::write(fd, b, n);
        if (w <= 0)
            return;
        b += w;
        n -= static_cast<std::size_t>(w);
    }
}

inline void die_with(const char* outcome, const char* why)
{
    State& s = st();
    if (s.dying)
        _exit(3);
    s.dying = true;
    if (s.fd >= 0 && s.cur >= 0)
    {
        char buf[256];
        int n = snprintf(buf, sizeof buf, "{\"i\":%lld,\"outcome\":\"%s\",\"why\":\"%s\",\"steps\":[",
                         s.cur, outcome, why);
        write_all(s.fd, buf, static_cast<std::size_t>(n));
        write_all(s.fd, s.partial, s.partial_len);
        write_all(s.fd, "]}\n", 3);
    }
    _exit(3);
}

inline void on_alarm(int)
{
    die_with("timeout", "watchdog");
}
inline void on_segv(int sig)
{
    die_with("crash", sig == SIGSEGV ? "SIGSEGV" : sig == SIGABRT ? "SIGABRT" : sig == SIGFPE ? "SIGFPE" : "signal");
}
inline void on_sanitizer_death()
{
    die_with("crash", "sanitizer");
}
inline void on_terminate()
{
    die_with("crash", "terminate");
}

inline void install_handlers()
{
#ifdef VH_ASAN
    __sanitizer_set_death_callback(on_sanitizer_death);
#else
    static char altstack[1 << 16];
    stack_t ss;
    ss.ss_sp = altstack;
    ss.ss_size = sizeof altstack;
    ss.ss_flags = 0;
    sigaltstack(&ss, nullptr);
    struct sigaction sa;
    memset(&sa, 0, sizeof sa);
    sa.sa_handler = on_segv;
    sa.sa_flags = SA_ONSTACK;
    sigaction(SIGSEGV, &sa, nullptr);
    sigaction(SIGBUS, &sa, nullptr);
    sigaction(SIGFPE, &sa, nullptr);
#endif
    struct sigaction sb;
    memset(&sb, 0, sizeof sb);
    sb.sa_handler = on_segv;
    sigaction(SIGABRT, &sb, nullptr);
    struct sigaction sc;
    memset(&sc, 0, sizeof sc);
    sc.sa_handler = on_alarm;
    sigaction(SIGALRM, &sc, nullptr);
    std::set_terminate(on_terminate);
}

// append a completed step observation of the running case (kept for the death handlers)
inline void note_step(const J& step)
{
    State& s = st();
    std::string d = step.dump();
    if (s.partial_len + d.size() + 2 < sizeof s.partial)
    {
        if (s.partial_len)
            s.partial[s.partial_len++] = ',';
        memcpy(s.partial + s.partial_len, d.data(), d.size());
        s.partial_len += d.size();
    }
}

// run `fn(case) -> observation` over the case file
inline int run_cases(int argc, char** argv, const std::function<J(const J&)>& fn, unsigned watchdog_s = 10)
{
    if (argc < 3)
    {
        fprintf(stderr, "usage: %s cases.ndjson obs.ndjson [skip]\n", argv[0]);
        return 2;
    }
    long long skip = argc > 3 ? atoll(argv[3]) : 0;
    if (const char* w = getenv("VH_WATCHDOG"))
        watchdog_s = static_cast<unsigned>(atoi(w)); // the confirmation re-run of a timed-out case gets more time
    std::ifstream in(argv[1]);
    if (!in)
    {
        fprintf(stderr, "cannot open %s\n", argv[1]);
        return 2;
    }
    State& s = st();
    s.fd = ::open(argv[2], O_WRONLY | O_CREAT | O_APPEND, 0644);
    if (s.fd < 0)
    {
        fprintf(stderr, "cannot open %s\n", argv[2]);
        return 2;
    }
    install_handlers();
    std::string line;
    long long idx = -1;
    std::string outbuf;
    while (std::getline(in, line))
    {
        ++idx;
        if (idx < skip || line.empty())
            continue;
        J c = parse(line);
        // everything buffered belongs to completed cases and must be written before a case can die
        write_all(s.fd, outbuf.data(), outbuf.size());
        outbuf.clear();
        s.cur = idx;
        s.partial_len = 0;
        alarm(watchdog_s);
        J obs = fn(c);
        alarm(0);
        s.cur = -1;
        obs.set("i", J(idx));
        obs.write(outbuf);
        outbuf += '\n';
    }
    write_all(s.fd, outbuf.data(), outbuf.size());
    ::close(s.fd);
    return 0;
}
} // namespace vh
