// Conformance driver for nitro::lang::fixed_vector (C06, C07).
// case: {"elem":"copy"|"move", "nc":N, "steps":[{"op":..., "args":[...], "throw_at":k?}, ...]}
// observation: {"steps":[{"out":"ok"|"raise"|"threw"|[v], "state":[{st,cap,size,seq,fwd,rev,at}], "objs":n, "expect_objs":n,
//                         "bad":n}, ...]}
// Element types keep a registry of live objects: touching (copying from / assigning to / reading / destroying) an
// address that holds no live object is counted as `bad`; the number of live objects must always be the sum of the
// capacities of the existing containers (no leak, no double destruction), also after an injected throw.
#include <common/vh.hpp>

#include <nitro/lang/fixed_vector.hpp>
#include <nitro/lang/reverse.hpp>

#include <algorithm>
#include <array>
#include <iterator>
#include <memory>
#include <set>
#include <stdexcept>
#include <vector>

using vh::J;

struct Registry
{
    std::set<const void*> live;
    long bad = 0;
    long budget = -1; // throws when it reaches 0 on a copy/move

    void born(const void* p)
    {
        if (!live.insert(p).second)
            ++bad; // constructed over a live object
    }
    void died(const void* p)
    {
        if (!live.erase(p))
            ++bad; // double destruction
    }
    void touch(const void* p)
    {
        if (!live.count(p))
            ++bad;
    }
    void step()
    {
        if (budget > 0 && --budget == 0)
        {
            budget = -1;
            throw std::runtime_error("injected");
        }
    }
};
static Registry reg;

struct Elem
{
    int v;
    Elem() : v(0)
    {
        reg.born(this);
    }
    Elem(int x) : v(x)
    {
        reg.born(this);
    }
    Elem(const Elem& o) : v(0)
    {
        reg.touch(&o);
        reg.step();
        v = o.v;
        reg.born(this);
    }
    Elem(Elem&& o) : v(0)
    {
        reg.touch(&o);
        reg.step();
        v = o.v;
        o.v = -1;
        reg.born(this);
    }
    Elem& operator=(const Elem& o)
    {
        reg.touch(this);
        reg.touch(&o);
        reg.step();
        v = o.v;
        return *this;
    }
    Elem& operator=(Elem&& o)
    {
        reg.touch(this);
        reg.touch(&o);
        reg.step();
        int t = o.v;
        if (&o != this)
            o.v = -1;
        v = t;
        return *this;
    }
    ~Elem()
    {
        reg.died(this);
    }
    int get() const
    {
        reg.touch(this);
        return v;
    }
};

struct MElem
{
    int v;
    MElem() : v(0)
    {
        reg.born(this);
    }
    MElem(int x) : v(x)
    {
        reg.born(this);
    }
    MElem(const MElem&) = delete;
    MElem& operator=(const MElem&) = delete;
    MElem(MElem&& o) : v(0)
    {
        reg.touch(&o);
        reg.step();
        v = o.v;
        o.v = -1;
        reg.born(this);
    }
    MElem& operator=(MElem&& o)
    {
        reg.touch(this);
        reg.touch(&o);
        reg.step();
        int t = o.v;
        if (&o != this)
            o.v = -1;
        v = t;
        return *this;
    }
    ~MElem()
    {
        reg.died(this);
    }
    int get() const
    {
        reg.touch(this);
        return v;
    }
};

template <typename E>
struct Pool
{
    using FV = nitro::lang::fixed_vector<E>;
    std::vector<std::unique_ptr<FV>> c;
    std::vector<bool> dirty;

    explicit Pool(std::size_t n) : c(n), dirty(n, false)
    {
    }

    J project()
    {
        J out = J::arr();
        for (std::size_t i = 0; i < c.size(); i++)
        {
            J s = J::obj();
            if (!c[i])
            {
                s.set("st", "absent").set("cap", 0).set("size", 0).set("seq", J::arr());
                out.push(s);
                continue;
            }
            FV& v = *c[i];
            const FV& cv = v;
            s.set("st", "live");
            s.set("cap", J(v.capacity()));
            s.set("size", J(v.size()));
            s.set("empty", J(v.empty()));
            if (v.size() > v.capacity())
            {
                // contents unspecified: do not walk them
                s.set("seq", J::arr());
                out.push(s);
                continue;
            }
            J seq = J::arr(), fwd = J::arr(), cfwd = J::arr(), rev = J::arr(), at = J::arr(), viarev = J::arr();
            for (std::size_t k = 0; k < v.size(); k++)
                seq.push(J(cv[k].get()));
            for (std::size_t k = 0; k < v.size(); k++)
                at.push(J(v.at(k).get()));
            for (auto it = v.begin(); it != v.end(); ++it)
                fwd.push(J(it->get()));
            for (auto it = cv.cbegin(); it != cv.cend(); ++it)
                cfwd.push(J(it->get()));
            std::size_t guard = 0;
            for (auto it = v.rbegin(); it != v.rend() && guard <= v.capacity(); ++it, ++guard)
                rev.push(J(it->get()));
            guard = 0;
            for (auto& e : nitro::lang::reverse(v))
            {
                if (guard++ > v.capacity())
                    break;
                viarev.push(J(e.get()));
            }
            s.set("seq", seq).set("at", at).set("fwd", fwd).set("cfwd", cfwd).set("rev", rev).set("viarev", viarev);
            if (v.size() > 0)
            {
                s.set("front", J(v.front().get()));
                s.set("back", J(v.back().get()));
                s.set("data0", J(v.data()[0].get()));
            }
            out.push(s);
        }
        return out;
    }

    long expect_objs()
    {
        long n = 0;
        for (auto& p : c)
            if (p)
                n += static_cast<long>(p->capacity());
        return n;
    }
};

static std::vector<int> ints(const J& a)
{
    std::vector<int> r;
    for (auto& e : a.a)
        r.push_back(static_cast<int>(e.num()));
    return r;
}

// A single-pass input iterator over a vector (the std::istream_iterator kind): all copies share the read position, so
// a range can be walked exactly once.  The range operations of fixed_vector take any iterator.
template <typename E>
struct SinglePass
{
    using iterator_category = std::input_iterator_tag;
    using value_type = E;
    using difference_type = std::ptrdiff_t;
    using pointer = const E*;
    using reference = const E&;
    const std::vector<E>* v = nullptr; // nullptr: the end iterator
    std::shared_ptr<std::size_t> pos;
    bool at_end() const
    {
        return !v || *pos >= v->size();
    }
    reference operator*() const
    {
        return (*v)[*pos];
    }
    SinglePass& operator++()
    {
        ++*pos;
        return *this;
    }
    void operator++(int)
    {
        ++*pos;
    }
    bool operator==(const SinglePass& o) const
    {
        return at_end() && o.at_end();
    }
    bool operator!=(const SinglePass& o) const
    {
        return !(*this == o);
    }
};
template <typename E>
static SinglePass<E> single_pass_begin(const std::vector<E>& v)
{
    SinglePass<E> it;
    it.v = &v;
    it.pos = std::make_shared<std::size_t>(0);
    return it;
}

template <typename E, bool Copyable>
struct Runner
{
    using FV = nitro::lang::fixed_vector<E>;
    Pool<E> pool;
    unsigned range_calls = 0; // every other range operation is fed from a single-pass input iterator
    explicit Runner(std::size_t n) : pool(n)
    {
    }

    template <bool C = Copyable>
    std::enable_if_t<C, J> copy_ops(const std::string& op, const J& a)
    {
        auto idx = [&](std::size_t k) { return static_cast<std::size_t>(a[k].num()) - 1; };
        if (op == "ConstructFrom")
        {
            std::vector<E> src;
            src.reserve(std::max<std::size_t>(8, a[a.size() - 1].size())); // no reallocation: element moves inside the driver must not consume the throw budget
            for (int x : ints(a[2]))
                src.emplace_back(x);
            pool.c[idx(0)] = std::make_unique<FV>(static_cast<std::size_t>(a[1].num()), src);
            return J("ok");
        }
        if (op == "ConstructList")
        {
            auto l = ints(a[1]);
            switch (l.size())
            {
            case 0:
                pool.c[idx(0)] = std::make_unique<FV>(std::initializer_list<E>{});
                break;
            case 1:
                pool.c[idx(0)] = std::make_unique<FV>(std::initializer_list<E>{ E(l[0]) });
                break;
            case 2:
                pool.c[idx(0)] = std::make_unique<FV>(std::initializer_list<E>{ E(l[0]), E(l[1]) });
                break;
            default:
                pool.c[idx(0)] = std::make_unique<FV>(std::initializer_list<E>{ E(l[0]), E(l[1]), E(l[2]) });
                break;
            }
            return J("ok");
        }
        if (op == "CopyConstruct")
        {
            pool.c[idx(0)] = std::make_unique<FV>(*pool.c[idx(1)]);
            return J("ok");
        }
        if (op == "CopyAssign")
        {
            *pool.c[idx(0)] = *pool.c[idx(1)];
            pool.dirty[idx(0)] = false;
            return J("ok");
        }
        if (op == "AssignList")
        {
            auto l = ints(a[1]);
            FV& v = *pool.c[idx(0)];
            switch (l.size())
            {
            case 0:
                v = std::initializer_list<E>{};
                break;
            case 1:
                v = std::initializer_list<E>{ E(l[0]) };
                break;
            case 2:
                v = std::initializer_list<E>{ E(l[0]), E(l[1]) };
                break;
            default:
                v = std::initializer_list<E>{ E(l[0]), E(l[1]), E(l[2]) };
                break;
            }
            pool.dirty[idx(0)] = false;
            return J("ok");
        }
#ifdef FV_HAS_LVALUE_INSERT
        if (op == "InsertCopy")
        {
            E e(static_cast<int>(a[1].num()));
            pool.c[idx(0)]->insert(e);
            return J("ok");
        }
#endif
        if (op == "PushBack")
        {
            E e(static_cast<int>(a[1].num()));
            pool.c[idx(0)]->push_back(e);
            return J("ok");
        }
        if (op == "RangeInsert")
        {
            std::vector<E> src;
            src.reserve(std::max<std::size_t>(8, a[a.size() - 1].size())); // no reallocation: element moves inside the driver must not consume the throw budget
            for (int x : ints(a[2]))
                src.emplace_back(x);
            FV& v = *pool.c[idx(0)];
#ifndef VERIF_NO_SINGLEPASS
            if (++range_calls % 2 == 0)
                v.insert(v.begin() + a[1].num(), single_pass_begin(src), SinglePass<E>());
            else
#endif
                v.insert(v.begin() + a[1].num(), src.begin(), src.end());
            return J("ok");
        }
        if (op == "PushBackRange")
        {
            std::vector<E> src;
            src.reserve(std::max<std::size_t>(8, a[a.size() - 1].size())); // no reallocation: element moves inside the driver must not consume the throw budget
            for (int x : ints(a[1]))
                src.emplace_back(x);
#ifndef VERIF_NO_SINGLEPASS
            if (++range_calls % 2 == 0)
                pool.c[idx(0)]->push_back(single_pass_begin(src), SinglePass<E>());
            else
#endif
                pool.c[idx(0)]->push_back(src.begin(), src.end());
            return J("ok");
        }
        return J("unsupported");
    }
    template <bool C = Copyable>
    std::enable_if_t<!C, J> copy_ops(const std::string&, const J&)
    {
        return J("unsupported");
    }

    J apply(const std::string& op, const J& a)
    {
        auto idx = [&](std::size_t k) { return static_cast<std::size_t>(a[k].num()) - 1; };
        if (op == "Construct")
        {
            pool.c[idx(0)] = std::make_unique<FV>(static_cast<std::size_t>(a[1].num()));
            return J("ok");
        }
        if (op == "MoveConstruct")
        {
            pool.c[idx(0)] = std::make_unique<FV>(std::move(*pool.c[idx(1)]));
            return J("ok");
        }
        if (op == "MoveAssign")
        {
            *pool.c[idx(0)] = std::move(*pool.c[idx(1)]);
            pool.dirty[idx(0)] = false;
            return J("ok");
        }
        if (op == "DestroyIfExists")
        {
            pool.c[idx(0)].reset();
            pool.dirty[idx(0)] = false;
            return J("ok");
        }
        if (op == "Destroy")
        {
            pool.c[idx(0)].reset();
            pool.dirty[idx(0)] = false;
            return J("ok");
        }
        if (!pool.c[idx(0)])
            return copy_ops(op, a); // constructors of the copyable element type
        FV& v = *pool.c[idx(0)];
        if (op == "At")
        {
            std::size_t k = static_cast<std::size_t>(a[1].num());
            int r = v.at(k).get();
            const FV& cv = v;
            int r2 = cv.at(k).get();
            J o = J::arr();
            o.push(J(r == r2 ? r : -99));
            // std::get<I> is the same checked access
            if (k == 0 && std::get<0>(v).get() != r)
                o.push(J(-98));
            if (k == 1 && std::get<1>(v).get() != r)
                o.push(J(-98));
            if (k == 2 && std::get<2>(v).get() != r)
                o.push(J(-98));
            return o;
        }
        if (op == "SetAt")
        {
            std::size_t k = static_cast<std::size_t>(a[1].num());
            if (a[2].num() % 2)
                v.at(k) = E(static_cast<int>(a[2].num()));
            else
                v[k] = E(static_cast<int>(a[2].num()));
            return J("ok");
        }
        if (op == "EmplaceBack")
        {
            auto r = v.emplace_back(static_cast<int>(a[1].num()));
            return r + 1 == v.size() ? J("ok") : J("bad-return");
        }
        if (op == "InsertMove")
        {
            auto r = v.insert(E(static_cast<int>(a[1].num())));
            return r + 1 == v.size() ? J("ok") : J("bad-return");
        }
        if (op == "EmplaceAt")
        {
            v.emplace(v.begin() + a[1].num(), static_cast<int>(a[2].num()));
            return J("ok");
        }
        if (op == "PopBack")
        {
            v.pop_back();
            return J("ok");
        }
        if (op == "Erase")
        {
            v.erase(v.begin() + a[1].num());
            return J("ok");
        }
        return copy_ops(op, a);
    }

    J run(const J& steps)
    {
        J out = J::arr();
        for (std::size_t s = 0; s < steps.size(); s++)
        {
            const std::string op = steps[s]["op"].str();
            const J& a = steps[s]["args"];
            J r = J::obj();
            reg.budget = steps[s].has("throw_at") ? steps[s]["throw_at"].num() : -1;
            try
            {
                r.set("out", apply(op, a));
            }
            catch (const nitro::except::exception&)
            {
                r.set("out", "raise");
                if (op == "RangeInsert" || op == "PushBackRange")
                    pool.dirty[static_cast<std::size_t>(a[0].num()) - 1] = true;
            }
            catch (const std::runtime_error& e)
            {
                r.set("out", std::string(e.what()) == "injected" ? "threw" : "std_exception");
                if (op != "ConstructFrom" && op != "ConstructList" && op != "CopyConstruct" && op != "MoveConstruct" &&
                    op != "Construct")
                    pool.dirty[static_cast<std::size_t>(a[0].num()) - 1] = true;
            }
            catch (const std::exception&)
            {
                r.set("out", "std_exception");
            }
            reg.budget = -1;
            r.set("state", pool.project());
            r.set("objs", J(static_cast<long>(reg.live.size())));
            r.set("expect_objs", J(pool.expect_objs()));
            r.set("bad", J(reg.bad));
            vh::note_step(r);
            out.push(r);
        }
        return out;
    }
};

static J run(const J& c)
{
    J o = J::obj();
    std::size_t nc = static_cast<std::size_t>(c["nc"].num());
    reg.bad = 0;
    {
        if (c["elem"].str() == "copy")
        {
            Runner<Elem, true> r(nc);
            o.set("steps", r.run(c["steps"]));
        }
        else
        {
            Runner<MElem, false> r(nc);
            o.set("steps", r.run(c["steps"]));
        }
    }
    // everything destroyed: nothing may be left, nothing destroyed twice
    o.set("leaked", J(static_cast<long>(reg.live.size())));
    o.set("bad_end", J(reg.bad));
    reg.live.clear();
    o.set("outcome", "ok");
    return o;
}

int main(int argc, char** argv)
{
    return vh::run_cases(argc, argv, run, 10);
}
