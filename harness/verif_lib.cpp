// Test library for the dlenv driver (C19), built twice: -DVERIF_LIB=1 and -DVERIF_LIB=2.  Both define verif_common
// (returning a value that tells which library answered); each defines one symbol the other does not have.
extern "C"
{
    double verif_common(double x)
    {
        return x + VERIF_LIB;
    }
#if VERIF_LIB == 1
    double verif_own_L1(double x)
    {
        return x + 11;
    }
#else
    double verif_own_L2(double x)
    {
        return x + 12;
    }
#endif
}
