// Conformance driver for parser::usage (C15).
// case: {"app":str,"about":str,"dgroup":str,"groups":[{"name","desc"}],"opts":[{kind,grp,name,letter,rev,desc,meta,env,dflt}],
//        "allowed":n,"posname":str,"prior":str}
// observation: the text written to a fresh stringstream, to a stringstream holding `prior`, and to std::cout whose
// buffer is replaced by a capturing, non-seekable one.
#include <common/vh.hpp>

#include <nitro/options/parser.hpp>

#include <iostream>
#include <sstream>
#include <streambuf>

using vh::J;
namespace no = nitro::options;

class Capture : public std::streambuf
{
public:
    std::string data;

protected:
    std::streamsize xsputn(const char* s, std::streamsize n) override
    {
        data.append(s, static_cast<std::size_t>(n));
        return n;
    }
    int_type overflow(int_type c) override
    {
        if (c != traits_type::eof())
            data.push_back(static_cast<char>(c));
        return c;
    }
    // seekoff/seekpos not overridden: tellp() on this stream is -1, as on a terminal or pipe
};

static void build(no::parser& p, const J& c)
{
    for (auto& g : c["groups"].a)
        p.group(g["name"].as_bytes(), g["desc"].as_bytes());
    for (auto& o : c["opts"].a)
    {
        std::string kind = o["kind"].str(), name = o["name"].as_bytes(), desc = o["desc"].as_bytes();
        long gi = o["grp"].num();
        no::group& g = gi == 0 ? p.group() : p.group(c["groups"][static_cast<std::size_t>(gi) - 1]["name"].as_bytes());
        std::string letter = o["letter"].num() ? std::string(1, static_cast<char>(o["letter"].num())) : std::string();
        std::string env = o["env"].as_bytes(), meta = o["meta"].as_bytes();
        if (kind == "opt")
        {
            auto& x = g.option(name, desc);
            if (!letter.empty())
                x.short_name(letter);
            if (!env.empty())
                x.env(env);
            if (meta != "ARG")
                x.metavar(meta);
            if (o["dflt"].size())
                x.default_value(o["dflt"][0].as_bytes());
        }
        else if (kind == "multi")
        {
            auto& x = g.multi_option(name, desc);
            if (!letter.empty())
                x.short_name(letter);
            if (!env.empty())
                x.env(env);
            if (meta != "ARG")
                x.metavar(meta);
            if (o["dflt"].size())
                x.default_value(std::vector<std::string>{ o["dflt"][0].as_bytes() });
        }
        else
        {
            auto& x = g.toggle(name, desc);
            if (!letter.empty())
                x.short_name(letter);
            if (!env.empty())
                x.env(env);
            if (o["rev"].b)
                x.allow_reverse();
        }
    }
    long allowed = c["allowed"].num();
    if (allowed < 0)
        p.accept_positionals();
    else if (allowed > 0)
        p.accept_positionals(static_cast<std::size_t>(allowed));
    if (c.has("posname") && !c["posname"].as_bytes().empty())
        p.positional_metavar(c["posname"].as_bytes());
}

static J run(const J& c)
{
    J o = J::obj();
    try
    {
        no::parser p(c["app"].as_bytes(), c["about"].as_bytes(), c["dgroup"].as_bytes());
        build(p, c);
        std::stringstream fresh;
        p.usage(fresh);
        std::stringstream prior;
        std::string pre = c["prior"].as_bytes();
        prior << pre;
        p.usage(prior);
        std::string ptxt = prior.str();
        Capture cap;
        std::streambuf* old = std::cout.rdbuf(&cap);
        p.usage(); // default argument: std::cout
        std::cout.flush();
        std::cout.rdbuf(old);
        // the same parser after it has been moved (constructed, then assigned): the text must not change
        {
            no::parser q(std::move(p));
            std::stringstream mc;
            q.usage(mc);
            o.set("movedc", J::bytes(mc.str()));
            no::parser r("zzz", "another", "other group");
            r.group("zz-first", "a group of the target");
            r = std::move(q);
            std::stringstream ma;
            r.usage(ma);
            o.set("moveda", J::bytes(ma.str()));
        }
        o.set("fresh", J::bytes(fresh.str()));
        o.set("prior_ok", J(ptxt.compare(0, pre.size(), pre) == 0));
        o.set("prior", J::bytes(ptxt.substr(pre.size())));
        o.set("cout", J::bytes(cap.data));
        o.set("outcome", "ok");
    }
    catch (const std::exception& e)
    {
        o.set("outcome", "raise");
        o.set("what", e.what());
    }
    return o;
}

int main(int argc, char** argv)
{
    return vh::run_cases(argc, argv, run, 10);
}
