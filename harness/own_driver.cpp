// Conformance driver for nitro::lang::quaint_ptr and nitro::lang::optional (C18).
// case: {"np":N,"no":M,"steps":[{"op":...,"args":[...]}]}   ops as in Owning.tla
// Payload types A, B, C are unrelated classes without virtual destructors: destroying an object through the wrong type
// runs the wrong destructor, which is recorded.  Every payload starts with its object id.
#include <common/vh.hpp>

#include <nitro/lang/optional.hpp>
#include <nitro/lang/quaint_ptr.hpp>

#include <set>
#include <vector>

using vh::J;

struct Life
{
    std::vector<int> destroyed;            // per object id: destructor runs
    std::vector<std::vector<std::string>> as; // per object id: which destructors ran
    std::set<const void*> live;
    long bad = 0;
    int next_id = 0;
    void reset()
    {
        destroyed.clear();
        as.clear();
        live.clear();
        bad = 0;
        next_id = 0;
    }
};
static Life life;

#define PAYLOAD(T, PAD)                                                                                                \
    struct T                                                                                                           \
    {                                                                                                                  \
        int id;                                                                                                        \
        char pad[PAD];                                                                                                 \
        T() : id(++life.next_id)                                                                                       \
        {                                                                                                              \
            life.destroyed.push_back(0);                                                                               \
            life.as.emplace_back();                                                                                    \
            life.live.insert(this);                                                                                    \
        }                                                                                                              \
        ~T()                                                                                                           \
        {                                                                                                              \
            if (!life.live.erase(this))                                                                                \
                ++life.bad;                                                                                            \
            if (id >= 1 && id <= static_cast<int>(life.destroyed.size()))                                              \
            {                                                                                                          \
                life.destroyed[static_cast<std::size_t>(id) - 1]++;                                                    \
                life.as[static_cast<std::size_t>(id) - 1].push_back(#T);                                               \
            }                                                                                                          \
            else                                                                                                       \
                ++life.bad;                                                                                            \
        }                                                                                                              \
    };
PAYLOAD(A, 4)
PAYLOAD(B, 4)
PAYLOAD(C, 4)

// value type of the optionals: counts instances, so aliasing (two optionals sharing one object) shows
struct V
{
    int v;
    static long live;
    V() : v(0)
    {
        ++live;
    }
    V(int x) : v(x)
    {
        ++live;
    }
    V(const V& o) : v(o.v)
    {
        ++live;
    }
    V(V&& o) : v(o.v)
    {
        ++live;
    }
    V& operator=(const V&) = default;
    V& operator=(V&&) = default;
    ~V()
    {
        --live;
    }
};
long V::live = 0;

static J run(const J& c)
{
    life.reset();
    J out = J::arr();
    long v_before = V::live;
    {
        std::size_t np = static_cast<std::size_t>(c["np"].num()), no = static_cast<std::size_t>(c["no"].num());
        std::vector<nitro::lang::quaint_ptr> ptr(np);
        std::vector<nitro::lang::quaint_ptr> vec;
        std::vector<std::unique_ptr<nitro::lang::optional<V>>> opt;
        for (std::size_t i = 0; i < no; i++)
            opt.push_back(std::make_unique<nitro::lang::optional<V>>());
        auto idof = [](const nitro::lang::quaint_ptr& p) -> long { return p ? static_cast<long>(*static_cast<int*>(p.get())) : 0; };
        const J& steps = c["steps"];
        for (std::size_t s = 0; s < steps.size(); s++)
        {
            const std::string op = steps[s]["op"].str();
            const J& a = steps[s]["args"];
            auto P = [&](std::size_t k) -> nitro::lang::quaint_ptr& { return ptr.at(static_cast<std::size_t>(a[k].num()) - 1); };
            auto O = [&](std::size_t k) -> nitro::lang::optional<V>& { return *opt.at(static_cast<std::size_t>(a[k].num()) - 1); };
            J r = J::obj();
            r.set("out", "ok");
            J val = J::arr();
            try
            {
                if (op == "Make")
                {
                    std::string t = a[1].str();
                    if (t == "A")
                        P(0) = nitro::lang::make_quaint<A>();
                    else if (t == "B")
                        P(0) = nitro::lang::make_quaint<B>();
                    else
                        P(0) = nitro::lang::make_quaint<C>();
                }
                else if (op == "MoveAssign")
                    P(0) = std::move(P(1));
                else if (op == "MoveConstruct")
                {
                    nitro::lang::quaint_ptr tmp(std::move(P(1)));
                    if (P(1))
                        r.set("out", "moved-from-not-empty");
                    P(0) = std::move(tmp);
                }
                else if (op == "Reset")
                {
                    P(0).reset();
                    if (P(0) || P(0).get() != nullptr)
                        r.set("out", "reset-not-empty");
                }
                else if (op == "Push")
                    vec.push_back(std::move(P(0)));
                else if (op == "Reallocate")
                    vec.reserve(vec.capacity() * 2 + 8);
                else if (op == "TakeBack")
                {
                    P(0) = std::move(vec.back());
                    vec.pop_back();
                }
                else if (op == "ClearVector")
                    vec.clear();
                else if (op == "OptSetValue")
                {
                    if (a[1].num() % 2)
                        O(0) = V(static_cast<int>(a[1].num())); // rvalue assignment
                    else
                    {
                        V x(static_cast<int>(a[1].num()));
                        O(0) = x; // lvalue assignment
                    }
                }
                else if (op == "OptAssign")
                    O(0) = O(1);
                else if (op == "OptCopyConstruct")
                    opt.at(static_cast<std::size_t>(a[0].num()) - 1) = std::make_unique<nitro::lang::optional<V>>(O(1));
                else if (op == "OptAssignEmpty")
                    O(0) = nitro::lang::optional<V>();
                else if (op == "OptRead")
                    val.push(J((*O(0)).v));
            }
            catch (const nitro::except::exception&)
            {
                r.set("out", "raise");
            }
            r.set("val", val);
            J ps = J::arr();
            for (auto& p : ptr)
                ps.push(J(idof(p)));
            J vs = J::arr();
            for (auto& p : vec)
                vs.push(J(idof(p)));
            J os = J::arr();
            for (std::size_t i = 0; i < life.destroyed.size(); i++)
            {
                J x = J::obj();
                x.set("destroyed", J(life.destroyed[i]));
                J as = J::arr();
                for (auto& t : life.as[i])
                    as.push(J(t));
                x.set("as", as);
                os.push(x);
            }
            J ops = J::arr();
            long holding = 0;
            for (auto& o : opt)
            {
                J x = J::arr();
                if (*o)
                {
                    x.push(J((**o).v));
                    ++holding;
                }
                ops.push(x);
            }
            r.set("ptr", ps).set("vec", vs).set("obj", os).set("opt", ops);
            r.set("bad", J(life.bad));
            r.set("live_payloads", J(static_cast<long>(life.live.size())));
            r.set("v_live", J(V::live - v_before));
            r.set("v_holding", J(holding));
            vh::note_step(r);
            out.push(r);
        }
    }
    J o = J::obj();
    o.set("steps", out);
    // everything went out of scope: every payload destroyed exactly once, no value object left
    long twice = 0, never = 0;
    for (int d : life.destroyed)
    {
        twice += d > 1;
        never += d == 0;
    }
    o.set("end_twice", J(twice)).set("end_never", J(never)).set("end_bad", J(life.bad)).set("end_v", J(V::live - v_before));
    o.set("outcome", "ok");
    return o;
}

int main(int argc, char** argv)
{
    return vh::run_cases(argc, argv, run, 10);
}
