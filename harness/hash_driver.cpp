// Conformance driver for nitro::lang::hash / tuple_operators / unordered containers (C16).
// case: {"sets":[{"fam":1|2|3,"steps":[["ins"|"find"|"erase",[idx...]],...]}]}
// observation: {"events":[...]} in the vocabulary of HashOrdTrace.tla.  A value is identified by the indices of its
// members in the (ascending) domain tables below, so the index tuple orders exactly like the member tuple.
#include <common/vh.hpp>

#include <nitro/lang/hash.hpp>
#include <nitro/lang/tuple_operators.hpp>
#include <nitro/lang/unordered.hpp>

#include <memory>
#include <string>
#include <tuple>
#include <variant>

using vh::J;

static const char* STR[] = { "", "a", "ab", "b" };           // ascending
static const double DBL[] = { -1.5, 0.0, 2.0 };              // index 1 has two representations: +0.0 and -0.0

struct A3 : nitro::lang::tuple_operators<A3>
{
    short a;
    std::string s;
    long b;
    A3(short a_, std::string s_, long b_) : a(a_), s(std::move(s_)), b(b_)
    {
    }
    auto as_tuple()
    {
        return std::tie(a, s, b);
    }
};

struct D2 : nitro::lang::tuple_operators<D2>
{
    double d;
    int x;
    D2(double d_, int x_) : d(d_), x(x_)
    {
    }
    auto as_tuple()
    {
        return std::tie(d, x);
    }
};

static J chunks(std::size_t h)
{
    unsigned long long v = h;
    return J::arr().push(J(static_cast<long long>(v >> 42))).push(J(static_cast<long long>((v >> 21) & 0x1fffff))).push(J(static_cast<long long>(v & 0x1fffff)));
}
static J tup(std::initializer_list<long> l)
{
    J a = J::arr();
    for (long x : l)
        a.push(J(x));
    return a;
}
static J ev_hash(int fam, const J& v, std::size_t h)
{
    return J::obj().set("e", "Hash").set("fam", J(fam)).set("v", v).set("h", chunks(h)).set("a", J::arr()).set("b", J::arr());
}
template <typename T>
static J ev_cmp(const J& va, const J& vb, const T& x, const T& y)
{
    return J::obj().set("e", "Cmp").set("a", va).set("b", vb).set("lt", J(x < y)).set("eq", J(x == y)).set("gt", J(x > y)).set("le", J(x <= y)).set("ge", J(x >= y)).set("ne", J(x != y));
}
static J ev_done(int fam, int arity, std::initializer_list<std::pair<int, int>> swaps)
{
    J sw = J::arr();
    for (auto& p : swaps)
        sw.push(J::arr().push(J(p.first)).push(J(p.second)));
    return J::obj().set("e", "Done").set("fam", J(fam)).set("arity", J(arity)).set("swap", sw);
}

static A3 mkA(long i, long j, long k)
{
    return A3(static_cast<short>(i), STR[j], k);
}
static D2 mkD(long i, long x, int rep)
{
    double d = DBL[i];
    if (i == 1 && rep == 1)
        d = -0.0;
    return D2(d, static_cast<int>(x));
}

static J run(const J& c)
{
    J ev = J::arr();
    // ---- family 1: tuple_operators class (short, string, long) ---------------------------------------------
    for (long i = 0; i < 3; i++)
        for (long j = 0; j < 4; j++)
            for (long k = 0; k < 3; k++)
            {
                A3 x = mkA(i, j, k);
                ev.push(ev_hash(1, tup({ i, j, k }), nitro::lang::hash(x)));
                ev.push(ev_hash(1, tup({ i, j, k }), x.hash()));
                ev.push(ev_hash(1, tup({ i, j, k }), nitro::lang::hash_wrapper<A3>()(mkA(i, j, k))));
                for (long i2 = 0; i2 < 3; i2++)
                    for (long j2 = 0; j2 < 4; j2++)
                        for (long k2 = 0; k2 < 3; k2++)
                            ev.push(ev_cmp(tup({ i, j, k }), tup({ i2, j2, k2 }), x, mkA(i2, j2, k2)));
            }
    // the hash follows the value: hash, change a member in place (directly, through as_tuple(), by assignment from
    // another object), hash again -- and the same for copies of an object that has been hashed before
    for (long i = 0; i < 3; i++)
        for (long j = 0; j < 4; j++)
            for (long k = 0; k < 3; k++)
            {
                A3 x = mkA(i, j, k);
                (void)nitro::lang::hash(x);
                x.a = static_cast<short>((i + 1) % 3);
                ev.push(ev_hash(1, tup({ (i + 1) % 3, j, k }), nitro::lang::hash(x)));
                std::get<1>(x.as_tuple()) = STR[(j + 1) % 4];
                ev.push(ev_hash(1, tup({ (i + 1) % 3, (j + 1) % 4, k }), x.hash()));
                A3 y = x; // copy of a hashed object
                y.b = (k + 2) % 3;
                ev.push(ev_hash(1, tup({ (i + 1) % 3, (j + 1) % 4, (k + 2) % 3 }), nitro::lang::hash(y)));
                ev.push(ev_hash(1, tup({ (i + 1) % 3, (j + 1) % 4, k }), nitro::lang::hash(x)));
                A3 z = mkA(0, 0, 0);
                (void)z.hash();
                z = y; // assignment over a hashed object
                ev.push(ev_hash(1, tup({ (i + 1) % 3, (j + 1) % 4, (k + 2) % 3 }), nitro::lang::hash(z)));
                ev.push(ev_cmp(tup({ (i + 1) % 3, (j + 1) % 4, (k + 2) % 3 }), tup({ (i + 1) % 3, (j + 1) % 4, (k + 2) % 3 }), z, y));
            }
    ev.push(ev_done(1, 3, { { 1, 3 } }));
    // ---- family 2: (double, int) with signed zeros ----------------------------------------------------------
    for (long i = 0; i < 3; i++)
        for (long x = 0; x < 3; x++)
            for (int rep = 0; rep < 2; rep++)
            {
                D2 v = mkD(i, x, rep);
                ev.push(ev_hash(2, tup({ i, x }), nitro::lang::hash(v)));
                for (long i2 = 0; i2 < 3; i2++)
                    for (long x2 = 0; x2 < 3; x2++)
                        for (int rep2 = 0; rep2 < 2; rep2++)
                            ev.push(ev_cmp(tup({ i, x }), tup({ i2, x2 }), v, mkD(i2, x2, rep2)));
            }
    ev.push(ev_done(2, 2, {}));
    // ---- family 3: std::tuple<int, std::string, unsigned char> -----------------------------------------------
    for (long i = 0; i < 3; i++)
        for (long j = 0; j < 4; j++)
            for (long k = 0; k < 3; k++)
            {
                std::tuple<int, std::string, unsigned char> t(static_cast<int>(i), STR[j], static_cast<unsigned char>(k));
                ev.push(ev_hash(3, tup({ i, j, k }), nitro::lang::hash(t)));
            }
    ev.push(ev_done(3, 3, { { 1, 3 } }));
    // ---- family 4: std::pair<std::string, A3> (nested) --------------------------------------------------------
    for (long p = 0; p < 4; p++)
        for (long i = 0; i < 3; i++)
            for (long j = 0; j < 4; j++)
                for (long k = 0; k < 3; k++)
                    ev.push(ev_hash(4, tup({ p, i, j, k }), nitro::lang::hash(std::make_pair(std::string(STR[p]), mkA(i, j, k)))));
    ev.push(ev_done(4, 4, { { 1, 3 }, { 2, 4 } }));
    // ---- family 5: std::variant<int, std::string> ---------------------------------------------------------------
    for (long k = 0; k < 4; k++)
    {
        std::variant<int, std::string> vi = static_cast<int>(k);
        std::variant<int, std::string> vs = std::string(STR[k]);
        ev.push(ev_hash(5, tup({ 0, k }), nitro::lang::hash(vi)));
        ev.push(ev_hash(5, tup({ 1, k }), nitro::lang::hash(vs)));
    }
    ev.push(ev_done(5, 2, {}));
    // ---- family 6: smart pointers: the same pointer value hashes the same, and as its pointee --------------------
    {
        long id = 0;
        for (long i = 0; i < 3; i++)
            for (long k = 0; k < 3; k++)
            {
                auto sp = std::make_shared<A3>(mkA(i, 1, k));
                auto sp2 = sp;
                auto up = std::make_unique<A3>(mkA(i, 1, k));
                ++id;
                ev.push(ev_hash(6, tup({ id, i, k }), nitro::lang::hash(sp)));
                ev.push(ev_hash(6, tup({ id, i, k }), nitro::lang::hash(sp2)));
                ++id;
                ev.push(ev_hash(6, tup({ id, i, k }), nitro::lang::hash(up)));
                ev.push(ev_hash(6, tup({ id, i, k }), nitro::lang::hash(up)));
            }
    }
    // ---- hash containers --------------------------------------------------------------------------------------------
    if (c.has("sets"))
        for (auto& sc : c["sets"].a)
        {
            long fam = sc["fam"].num();
            nitro::lang::unordered_set<A3> sa;
            nitro::lang::unordered_map<D2, int> md;
            nitro::lang::unordered_set<std::tuple<int, std::string, unsigned char>> st;
            int famid = 10 + static_cast<int>(fam);
            for (auto& stp : sc["steps"].a)
            {
                std::string op = stp[0].str();
                const J& ix = stp[1];
                auto I = [&](std::size_t k) { return ix[k].num(); };
                J e = J::obj();
                e.set("fam", J(famid)).set("v", ix);
                bool res = false;
                std::size_t size = 0;
                if (fam == 1)
                {
                    // the key object is built as another value, hashed once, and then changed into the wanted value
                    A3 v = mkA((I(0) + 1) % 3, I(1), I(2));
                    (void)sa.count(v);
                    v.a = static_cast<short>(I(0));
                    if (op == "ins")
                        res = sa.insert(v).second;
                    else if (op == "find")
                        res = sa.find(v) != sa.end() && sa.count(v) == 1;
                    else
                        res = sa.erase(v) == 1;
                    size = sa.size();
                }
                else if (fam == 2)
                {
                    D2 v = mkD(I(0), I(1), static_cast<int>(stp[2].num()));
                    if (op == "ins")
                        res = md.emplace(v, 7).second;
                    else if (op == "find")
                        res = md.find(v) != md.end();
                    else
                        res = md.erase(v) == 1;
                    size = md.size();
                }
                else
                {
                    std::tuple<int, std::string, unsigned char> v(static_cast<int>(I(0)), STR[I(1)], static_cast<unsigned char>(I(2)));
                    if (op == "ins")
                        res = st.insert(v).second;
                    else if (op == "find")
                        res = st.find(v) != st.end();
                    else
                        res = st.erase(v) == 1;
                    size = st.size();
                }
                if (op == "ins")
                    e.set("e", "SetInsert").set("inserted", J(res));
                else if (op == "find")
                    e.set("e", "SetFind").set("found", J(res));
                else
                    e.set("e", "SetErase").set("erased", J(res));
                e.set("size", J(size));
                ev.push(e);
            }
        }
    return J::obj().set("outcome", "ok").set("events", ev);
}

int main(int argc, char** argv)
{
    return vh::run_cases(argc, argv, run, 20);
}
