// Driver for the growth module spec/misc/Misc.tla: make_catch, string_ref, severity printing / parsing.
#include <common/vh.hpp>

#include <nitro/except/exception.hpp>
#include <nitro/lang/catch.hpp>
#include <nitro/lang/string_ref.hpp>
#include <nitro/log/severity.hpp>

#include <nitro/log/attribute/message.hpp>
#include <nitro/log/attribute/severity.hpp>
#include <nitro/log/attribute/timestamp.hpp>
#include <nitro/log/filter/null_filter.hpp>
#include <nitro/log/log.hpp>
#include <nitro/log/sink/logfile.hpp>
#include <nitro/log/sink/null.hpp>
#include <nitro/log/sink/stderr.hpp>
#include <nitro/log/sink/stdout.hpp>

#include <fstream>
#include <iostream>
#include <sstream>
#include <stdexcept>
#include <unistd.h>

namespace nl = nitro::log;
using SRecord = nl::record<nl::message_attribute, nl::severity_attribute, nl::timestamp_attribute>;
template <typename R>
struct BarFormatter
{
    std::string format(R& r)
    {
        return r.message() + "|";
    }
};
template <typename Sink>
using SLogger = nl::logger<SRecord, BarFormatter, Sink, nl::filter::null_filter>;

template <typename Sink>
static void emit_all(const std::vector<std::string>& msgs)
{
    for (std::size_t k = 0; k < msgs.size(); k++)
    {
        // different severities: the null filter rejects nothing
        if (k % 2)
            SLogger<Sink>::warn() << msgs[k];
        else
            SLogger<Sink>::info() << msgs[k];
    }
}
static std::string g_logfile;
static std::string slurp(const std::string& p)
{
    std::ifstream f(p, std::ios::binary);
    std::stringstream ss;
    ss << f.rdbuf();
    return ss.str();
}

using vh::J;

static int thrower(const std::string& what)
{
    if (what == "std_exception")
        throw std::exception();
    if (what == "runtime_error")
        throw std::runtime_error("r");
    if (what == "logic_error")
        throw std::logic_error("l");
    if (what == "nitro_exception")
        throw nitro::except::exception("n");
    if (what == "int")
        throw 42;
    return 7;
}

template <typename... E>
static int call_catch(const std::string& what)
{
    auto f = [](const std::string& w) { return thrower(w); };
    return nitro::lang::make_catch<E...>(f, what);
}

using SE = std::exception;
using RE = std::runtime_error;
using LE = std::logic_error;
using NE = nitro::except::exception;

static int dispatch_catch(const std::vector<std::string>& f, const std::string& what)
{
    auto id = [](const std::string& s) { return s == "std_exception" ? 0 : s == "runtime_error" ? 1 : s == "logic_error" ? 2 : 3; };
    if (f.empty())
        return call_catch<>(what);
    if (f.size() == 1)
    {
        switch (id(f[0]))
        {
        case 0:
            return call_catch<SE>(what);
        case 1:
            return call_catch<RE>(what);
        case 2:
            return call_catch<LE>(what);
        default:
            return call_catch<NE>(what);
        }
    }
#define ROW(A)                                                                                                         \
    switch (id(f[1]))                                                                                                  \
    {                                                                                                                  \
    case 0:                                                                                                            \
        return call_catch<A, SE>(what);                                                                                \
    case 1:                                                                                                            \
        return call_catch<A, RE>(what);                                                                                \
    case 2:                                                                                                            \
        return call_catch<A, LE>(what);                                                                                \
    default:                                                                                                           \
        return call_catch<A, NE>(what);                                                                                \
    }
    switch (id(f[0]))
    {
    case 0:
        ROW(SE)
    case 1:
        ROW(RE)
    case 2:
        ROW(LE)
    default:
        ROW(NE)
    }
}

static J run(const J& c)
{
    const std::string kind = c["kind"].str();
    J o = J::obj();
    if (kind == "catch")
    {
        std::vector<std::string> f;
        for (auto& x : c["a"].a)
            f.push_back(x.str());
        try
        {
            int v = dispatch_catch(f, c["b"].str());
            o.set("out", "value").set("v", J(v));
        }
        catch (...)
        {
            o.set("out", "propagates").set("v", J(0));
        }
    }
    else if (kind == "ref")
    {
        std::string sa = c["a"].str(), sb = c["b"].str();
        nitro::lang::string_ref ra = sa == "<null>" ? nitro::lang::string_ref(nullptr) : nitro::lang::string_ref(sa);
        nitro::lang::string_ref rb = sb == "<null>" ? nitro::lang::string_ref(nullptr) : nitro::lang::string_ref(sb);
        o.set("empty", J(ra.empty() && !static_cast<bool>(ra)));
        o.set("eq", J(ra == rb)).set("ne", J(ra != rb));
        o.set("size", J(sa == "<null>" ? std::size_t(0) : ra.size()));
        bool at_ok = true;
        if (sa != "<null>")
        {
            for (std::size_t i = 0; i < sa.size(); i++)
                at_ok = at_ok && ra.at(i) == sa[i] && ra[i] == sa[i];
            try
            {
                ra.at(sa.size());
                at_ok = false; // must raise
            }
            catch (const nitro::except::exception&)
            {
            }
            at_ok = at_ok && ra.str() == sa && std::string(ra) == sa;
        }
        o.set("at_ok", J(at_ok));
    }
    else if (kind == "sink")
    {
        std::vector<std::string> msgs;
        for (auto& x : c["b"].a)
            msgs.push_back(x.str());
        const std::string sk = c["a"].str();
        std::stringstream out, err;
        auto* ob = std::cout.rdbuf(out.rdbuf());
        auto* eb = std::cerr.rdbuf(err.rdbuf());
        std::string before = g_logfile.empty() ? "" : slurp(g_logfile);
        if (sk == "stdout")
            emit_all<nl::sink::StdOut>(msgs);
        else if (sk == "stderr")
            emit_all<nl::sink::StdErr>(msgs);
        else if (sk == "null")
            emit_all<nl::sink::Null>(msgs);
        else
        {
            if (g_logfile.empty())
            {
                g_logfile = "/tmp/verif_misc_log_" + std::to_string(getpid()) + ".txt";
                nl::sink::Logfile::log_file() = g_logfile; // before the first record: the stream is opened once
            }
            emit_all<nl::sink::Logfile>(msgs);
        }
        std::cout.rdbuf(ob);
        std::cerr.rdbuf(eb);
        std::string after = g_logfile.empty() ? "" : slurp(g_logfile);
        std::string file_new = after.size() >= before.size() ? after.substr(before.size()) : "<file shrank>";
        std::string mine = sk == "stdout" ? out.str() : sk == "stderr" ? err.str() : sk == "logfile" ? file_new : "";
        std::string others = (sk == "stdout" ? "" : out.str()) + (sk == "stderr" ? "" : err.str()) + (sk == "logfile" ? "" : file_new);
        o.set("bytes", mine).set("elsewhere", others);
    }
    else
    {
        auto d = static_cast<nitro::log::severity_level>(c["b"].num());
        o.set("from", J(static_cast<int>(nitro::log::severity_from_string(c["a"].str(), d))));
        std::stringstream ss;
        ss << d;
        o.set("printed", ss.str());
    }
    o.set("outcome", "ok");
    return o;
}

int main(int argc, char** argv)
{
    return vh::run_cases(argc, argv, run, 10);
}
