// Conformance driver for nitro::options::parser (C01-C04, C11, C12, C14).
// case:  {"cfg": {"decl":[{kind,name,letter,rev,dflt,env,optional}], "allowed":n|-1, "greedy":bool},
//         "env": [bytes | "unset" ...],  "calls": [argv, argv, ...], optional "envs": [env per call]}
// observation: {"calls":[ {"oc": "ok"|"parsing_error"|"parser_error"|"nitro_exception"|"std_exception"|"other",
//                          "st":[{val,list,count,prov}], "pos":[...], "get":[...]} ... ]}
// All calls of one case are made on ONE parser object (that is the point of C14).
#include <common/vh.hpp>

#include <nitro/options/parser.hpp>

#include <cstdlib>
#include <memory>

using vh::J;

static std::string env_name(std::size_t k)
{
    return "NITRO_VERIF_E" + std::to_string(k);
}

static void declare(nitro::options::parser& p, const J& cfg)
{
    const J& decl = cfg["decl"];
    for (std::size_t k = 0; k < decl.size(); k++)
    {
        const J& d = decl[k];
        std::string kind = d["kind"].str();
        std::string name = d["name"].as_bytes();
        long long letter = d["letter"].num();
        long long env = d["env"].num();
        if (kind == "opt")
        {
            auto& o = p.option(name, "an option");
            if (letter)
                o.short_name(std::string(1, static_cast<char>(letter)));
            if (d["dflt"].size())
                o.default_value(d["dflt"][0].as_bytes());
            if (env)
                o.env(env_name(static_cast<std::size_t>(env)));
            if (d["optional"].b)
                o.optional();
        }
        else if (kind == "multi")
        {
            auto& o = p.multi_option(name, "a multi option");
            if (letter)
                o.short_name(std::string(1, static_cast<char>(letter)));
            if (d["dflt"].size())
                o.default_value(d["dflt"][0].as_bytes_list());
            if (env)
                o.env(env_name(static_cast<std::size_t>(env)));
            if (d["optional"].b)
                o.optional();
        }
        else
        {
            auto& o = p.toggle(name, "a toggle");
            if (letter)
                o.short_name(std::string(1, static_cast<char>(letter)));
            if (d["rev"].b)
                o.allow_reverse();
            if (d["dflt"].size() && d["dflt"][0].num() != 0)
                o.default_value(static_cast<int>(d["dflt"][0].num()));
            if (env)
                o.env(env_name(static_cast<std::size_t>(env)));
        }
    }
    long long allowed = cfg["allowed"].num();
    if (allowed < 0)
        p.accept_positionals();
    else if (allowed > 0)
        p.accept_positionals(static_cast<std::size_t>(allowed));
    if (cfg["greedy"].b)
        p.greedy_postionals();
}

static bool decimal(const std::string& s)
{
    std::size_t i = (s.size() > 1 && s[0] == '-') ? 1 : 0;
    if (s.size() - i < 1 || s.size() - i > 9)
        return false;
    for (; i < s.size(); i++)
        if (s[i] < '0' || s[i] > '9')
            return false;
    return true;
}

static J project(const nitro::options::arguments& a, const J& cfg)
{
    J o = J::obj();
    J st = J::arr();
    const J& decl = cfg["decl"];
    bool consistent = true;
    for (std::size_t k = 0; k < decl.size(); k++)
    {
        const J& d = decl[k];
        std::string kind = d["kind"].str();
        std::string name = d["name"].as_bytes();
        J s = J::obj();
        s.set("val", J::arr());
        s.set("list", J::arr());
        s.set("count", 0);
        if (kind == "opt")
        {
            try
            {
                std::string v = a.get(name);
                J vv = J::arr();
                vv.push(J::bytes(v));
                s.set("val", vv);
                if (decimal(v))
                {
                    s.set("as_long", J(a.as<long>(name)));
                    s.set("as_int", J(a.as<int>(name)));
                    if (v[0] != '-')
                        s.set("as_unsigned", J(static_cast<long long>(a.as<unsigned>(name))));
                }
                if (a.as<std::string>(name) != v)
                    consistent = false;
            }
            catch (const nitro::except::exception&)
            {
                // absent: reading an option without a value raises
            }
        }
        else if (kind == "multi")
        {
            auto all = a.get_all(name);
            s.set("list", J::bytes_list(all));
            if (a.count(name) != all.size())
                consistent = false;
            for (std::size_t i = 0; i < all.size(); i++)
                if (a.get(name, i) != all[i])
                    consistent = false;
        }
        else
        {
            s.set("count", J(a.given(name)));
        }
        s.set("prov", J(a.provided(name)));
        st.push(s);
    }
    o.set("st", st);
    o.set("pos", J::bytes_list(a.positionals()));
    // indexed access for every i in [-n-1, n]
    J get = J::arr();
    int n = static_cast<int>(a.positionals().size());
    for (int i = -n - 1; i <= n; i++)
    {
        J g = J::obj();
        g.set("idx", J(i));
        try
        {
            std::string v = a.get(i);
            if (a[i] != v)
                consistent = false;
            g.set("v", J::bytes(v));
            g.set("r", "ok");
        }
        catch (const std::exception&)
        {
            g.set("r", "raise");
        }
        get.push(g);
    }
    o.set("get", get);
    o.set("consistent", J(consistent));
    return o;
}

static void establish(const J& env)
{
    for (std::size_t k = 0; k < env.size(); k++)
    {
        if (env[k].k == J::Str)
            unsetenv(env_name(k + 1).c_str());
        else
            setenv(env_name(k + 1).c_str(), env[k].as_bytes().c_str(), 1);
    }
}

static J run(const J& c)
{
    const J& cfg = c["cfg"];
    const J& env = c["env"];
    // "envs": the environment changes between the calls; the parser is declared under the environment of the last one
    bool per_call = c.has("envs");
    establish(per_call ? c["envs"][c["envs"].size() - 1] : env);
    J out = J::obj();
    J calls = J::arr();
    bool via_inputs = c.has("via") && c["via"].str() == "inputs";
    std::unique_ptr<nitro::options::parser> p;
    try
    {
        p = std::make_unique<nitro::options::parser>("prog", "about");
        declare(*p, cfg);
    }
    catch (const std::exception& e)
    {
        out.set("outcome", "declare_failed");
        out.set("what", e.what());
        return out;
    }
    bool moved = c.has("moved") && c["moved"].b;
    std::vector<long long> letters_now;
    for (std::size_t i = 0; i < cfg["decl"].size(); i++)
        letters_now.push_back(cfg["decl"][i]["letter"].num());
    for (std::size_t k = 0; k < c["calls"].size(); k++)
    {
        if (moved)
        {
            // the parser object is moved (constructed on even, assigned on odd calls) and the old one destroyed
            if (k % 2 == 0)
            {
                auto q = std::make_unique<nitro::options::parser>(std::move(*p));
                p = std::move(q);
            }
            else
            {
                auto q = std::make_unique<nitro::options::parser>("other", "x");
                *q = std::move(*p);
                p = std::move(q);
            }
        }
        if (per_call)
            establish(c["envs"][k]);
        if (c.has("letters"))
        {
            // the application goes on declaring between the calls: short names attached to options that had none
            // (declaring an existing name again with the same kind returns the same option object)
            const J& want = c["letters"][k];
            for (std::size_t i = 0; i < want.size() && i < letters_now.size(); i++)
            {
                if (want[i].num() == letters_now[i])
                    continue;
                const J& d = cfg["decl"][i];
                std::string name = d["name"].as_bytes(), kind = d["kind"].str(), sn(1, static_cast<char>(want[i].num()));
                try
                {
                    if (kind == "opt")
                        p->option(name, "an option").short_name(sn);
                    else if (kind == "multi")
                        p->multi_option(name, "a multi option").short_name(sn);
                    else
                        p->toggle(name, "a toggle").short_name(sn);
                }
                catch (const std::exception& e)
                {
                    out.set("outcome", "declare_failed");
                    out.set("what", e.what());
                    return out;
                }
                letters_now[i] = want[i].num();
            }
        }
        auto toks = c["calls"][k].as_bytes_list();
        std::vector<const char*> argv;
        argv.push_back("prog");
        for (auto& t : toks)
            argv.push_back(t.c_str());
        J r = J::obj();
        try
        {
            if (via_inputs)
            {
                // the second public entry point: the caller builds the user_input objects
                std::vector<nitro::options::user_input> in;
                for (auto& t : toks)
                    in.emplace_back(t);
                auto args = p->parse(in);
                r = project(args, cfg);
            }
            else
            {
                auto args = p->parse(static_cast<int>(argv.size()), argv.data());
                if (moved)
                {
                    // the result object is copyable and movable: read it through a moved copy
                    nitro::options::arguments copy = args;
                    nitro::options::arguments last;
                    last = std::move(copy);
                    r = project(last, cfg);
                }
                else
                    r = project(args, cfg);
            }
            r.set("oc", "ok");
        }
        catch (const nitro::options::parsing_error& e)
        {
            r.set("oc", "parsing_error");
            r.set("what", e.what());
        }
        catch (const nitro::options::parser_error& e)
        {
            r.set("oc", "parser_error");
            r.set("what", e.what());
        }
        catch (const nitro::except::exception& e)
        {
            r.set("oc", "nitro_exception");
            r.set("what", e.what());
        }
        catch (const std::exception& e)
        {
            r.set("oc", "std_exception");
            r.set("what", e.what());
        }
        catch (...)
        {
            r.set("oc", "other");
        }
        vh::note_step(r);
        calls.push(r);
    }
    out.set("outcome", "ok");
    out.set("calls", calls);
    for (std::size_t k = 0; k < env.size(); k++)
        unsetenv(env_name(k + 1).c_str());
    return out;
}

int main(int argc, char** argv)
{
    return vh::run_cases(argc, argv, run, 10);
}
