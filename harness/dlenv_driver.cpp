// Conformance driver for nitro::env::get and nitro::dl (C19).  Linked with -Wl,--wrap=dlopen,--wrap=dlclose so that the
// loader calls made by the (header-only) wrapper are counted per library.
// case: {"libs":{"L1":path,"L2":path,"missing":path},"nh":N,"steps":[{"op":..,"args":[..]}]}
#include <common/vh.hpp>

#include <nitro/dl/dl.hpp>
#include <nitro/env/get.hpp>

#include <cmath>
#include <cstdlib>
#include <dlfcn.h>
#include <map>
#include <memory>

using vh::J;

extern "C" void* __real_dlopen(const char*, int);
extern "C" int __real_dlclose(void*);
static std::map<void*, long> g_opens, g_closes;
static bool g_counting = false;
extern "C" void* __wrap_dlopen(const char* f, int flags)
{
    void* h = __real_dlopen(f, flags);
    if (h && g_counting)
        g_opens[h]++;
    return h;
}
extern "C" int __wrap_dlclose(void* h)
{
    if (g_counting)
        g_closes[h]++;
    return __real_dlclose(h);
}

using Sym = nitro::dl::symbol<double(double)>;
struct Slot
{
    std::unique_ptr<nitro::dl::dl> d;
    std::unique_ptr<Sym> s;
    std::string kind() const
    {
        return d ? "dl" : s ? "sym" : "none";
    }
};

static J run(const J& c)
{
    g_opens.clear();
    g_closes.clear();
    g_counting = true;
    std::map<std::string, std::string> libs;
    for (auto& kv : c["libs"].o)
        libs[kv.first] = kv.second.str();
    std::map<void*, std::string> handle_lib;
    J out = J::arr();
    {
        std::vector<Slot> slot(static_cast<std::size_t>(c["nh"].num()));
        const J& steps = c["steps"];
        for (std::size_t k = 0; k < steps.size(); k++)
        {
            const std::string op = steps[k]["op"].str();
            const J& a = steps[k]["args"];
            auto S = [&](std::size_t i) -> Slot& { return slot.at(static_cast<std::size_t>(a[i].num()) - 1); };
            J r = J::obj();
            r.set("out", "ok").set("val", "");
            std::string asked;
            try
            {
                if (op == "SetEnv")
                    setenv(a[0].str().c_str(), a[1].str().c_str(), 1);
                else if (op == "UnsetEnv")
                    unsetenv(a[0].str().c_str());
                else if (op == "Get")
                {
                    std::string v = nitro::env::get(a[0].str(), a[1].str());
                    if (a[1].str().empty() && nitro::env::get(a[0].str()) != v)
                        r.set("out", "default-argument-differs");
                    r.set("val", v);
                }
                else if (op == "GetNoDefault")
                    r.set("val", nitro::env::get(a[0].str(), nitro::env::no_default));
                else if (op == "Open")
                {
                    asked = libs.at(a[1].str());
                    asked = asked.substr(asked.rfind('/') + 1);
                    S(0).d = std::make_unique<nitro::dl::dl>(libs.at(a[1].str()));
                    handle_lib[S(0).d->get().get()] = a[1].str();
                }
                else if (op == "Load")
                {
                    asked = "verif_" + a[2].str();
                    S(0).s = std::make_unique<Sym>(S(1).d->load<double(double)>(asked));
                }
                else if (op == "Copy")
                {
                    if (S(1).d)
                        S(0).d = std::make_unique<nitro::dl::dl>(*S(1).d);
                    else
                        S(0).s = std::make_unique<Sym>(*S(1).s);
                }
                else if (op == "AssignCopy")
                {
                    if (S(0).d)
                        *S(0).d = *S(1).d;
                    else
                        *S(0).s = *S(1).s;
                }
                else if (op == "AssignMove")
                {
                    if (S(0).d)
                        *S(0).d = std::move(*S(1).d);
                    else
                        *S(0).s = std::move(*S(1).s);
                    S(1).d.reset(); // the moved-from object goes away at once
                    S(1).s.reset();
                }
                else if (op == "Call")
                {
                    // the test libraries answer x + <library number> (verif_common) or x + 10 + <library number> (own symbol)
                    double x = 1000.0 + static_cast<double>(k);
                    long d = std::lround((*S(0).s)(x) - x);
                    std::string lib = "L" + std::to_string(d % 10);
                    r.set("val", d > 10 ? lib + ":own_" + lib : lib + ":common");
                }
                else if (op == "Destroy")
                {
                    S(0).d.reset();
                    S(0).s.reset();
                }
            }
            catch (const nitro::dl::exception& e)
            {
                r.set("out", "dl_exception");
                // the exception carries the loader's diagnostic of this failure: read it now, then through a copy and
                // again from the original after the loader has reported a different failure and has been asked twice
                std::string d1 = e.dlerror();
                nitro::dl::exception copy(e);
                g_counting = false;
                (void)__real_dlopen("/nonexistent/verif_some_other_failure.so", RTLD_NOW);
                (void)::dlerror();
                (void)::dlerror();
                g_counting = true;
                std::string d2 = copy.dlerror(), d3 = e.dlerror();
                bool ok = !d1.empty() && d1 == d2 && d1 == d3 && d1.find(asked) != std::string::npos;
                r.set("diag", J(ok));
                r.set("diag_text", J::bytes(d1));
                r.set("diag_later", J::bytes(d3));
                r.set("what", e.what());
            }
            catch (const nitro::except::exception& e)
            {
                r.set("out", "nitro_exception");
            }
            catch (const std::exception& e)
            {
                r.set("out", "std_exception");
            }
            J kinds = J::arr();
            for (auto& s : slot)
                kinds.push(J(s.kind()));
            r.set("kinds", kinds);
            J per = J::obj();
            for (auto& kv : libs)
            {
                long o = 0, cl = 0;
                for (auto& h : handle_lib)
                    if (h.second == kv.first)
                    {
                        o += g_opens[h.first];
                        cl += g_closes[h.first];
                    }
                per.set(kv.first, J::obj().set("opens", J(o)).set("closes", J(cl)));
            }
            r.set("libs", per);
            long stray = 0;
            for (auto& h : g_closes)
                if (!handle_lib.count(h.first))
                    stray += h.second;
            r.set("stray_closes", J(stray));
            vh::note_step(r);
            out.push(r);
        }
    }
    // all holders gone now
    J o = J::obj();
    long unbalanced = 0;
    for (auto& h : g_opens)
        if (g_closes[h.first] != h.second)
            ++unbalanced;
    o.set("steps", out).set("end_unbalanced", J(unbalanced)).set("outcome", "ok");
    g_counting = false;
    return o;
}

int main(int argc, char** argv)
{
    return vh::run_cases(argc, argv, run, 10);
}
