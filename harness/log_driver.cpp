// Conformance driver for nitro::log statements (C05, C10).  Compiled once per compile-time minimum severity:
//   -DNITRO_LOG_MIN_SEVERITY=<trace|debug|info|warn|error|fatal>
// Sink, formatter and filter are template parameters of nitro::log::logger, so the recording sink/formatter below
// need no hook in the library.  case: {"fx": 1..8, "steps": [...]}  steps:
//   {"op":"SetThr","i":1..3,"v":0..5} | {"op":"Expr","sev":0..5,"tag":0|1,"items":[{"t":"s"|"i"|"c","v":...}]}
//   {"op":"Begin","slot":k,"sev":..,"tag":..} | {"op":"Stream","slot":k,"item":{...}} | {"op":"End","slot":k}
// observation per step: what reached the formatter / each sink member in this step, callable invocations, stream type.
//   -DVERIF_LATE_MIN=<severity>: the minimum is defined in the source *after* other nitro/log headers were included and
//   before log.hpp (the repository's own test defines it in the source too): the gate must not depend on include order.
#include <common/vh.hpp>

#ifdef VERIF_LATE_MIN
#include <nitro/log/severity.hpp>

#include <nitro/log/attribute/message.hpp>
#include <nitro/log/attribute/severity.hpp>
#include <nitro/log/attribute/tag.hpp>
#include <nitro/log/filter/severity_filter.hpp>
#include <nitro/log/sink/sequence.hpp>
#undef NITRO_LOG_MIN_SEVERITY
#define NITRO_LOG_MIN_SEVERITY VERIF_LATE_MIN
#endif

#include <nitro/log/log.hpp>

#include <nitro/log/attribute/message.hpp>
#include <nitro/log/attribute/severity.hpp>
#include <nitro/log/attribute/tag.hpp>
#include <nitro/log/attribute/timestamp.hpp>
#include <nitro/log/filter/and_filter.hpp>
#include <nitro/log/filter/not_filter.hpp>
#include <nitro/log/filter/or_filter.hpp>
#include <nitro/log/filter/severity_filter.hpp>
#include <nitro/log/sink/sequence.hpp>

#include <functional>
#include <memory>
#include <string>
#include <vector>

using vh::J;
namespace nl = nitro::log;

struct SinkEvent
{
    int sink;
    int sev;
    std::string rec;
};
static std::vector<SinkEvent> g_sinks;
static std::vector<std::string> g_fmt;
static long g_calls = 0;

template <int K>
struct RecSink
{
    void sink(nl::severity_level s, const std::string& formatted)
    {
        g_sinks.push_back({ K, static_cast<int>(s), formatted });
    }
};

using Record = nl::record<nl::tag_attribute, nl::message_attribute, nl::severity_attribute, nl::timestamp_attribute>;

template <typename R>
struct RecFormatter
{
    std::string format(R& r)
    {
        std::string out = std::to_string(static_cast<int>(r.severity())) + "|" + (r.tag().empty() ? "-" : r.tag()) + "|" + r.message();
        g_fmt.push_back(out);
        return out;
    }
};

template <typename R>
using T1 = nl::filter::severity_filter<R, 1>;
template <typename R>
using T2 = nl::filter::severity_filter<R, 2>;
template <typename R>
using T3 = nl::filter::severity_filter<R, 3>;
template <typename R>
using FX1 = T1<R>;
template <typename R>
using FX2 = nl::filter::and_filter<T1<R>, T2<R>>;
template <typename R>
using FX3 = nl::filter::or_filter<T1<R>, T2<R>>;
template <typename R>
using FX4 = nl::filter::not_filter<T1<R>>;
template <typename R>
using FX5 = nl::filter::not_filter<nl::filter::not_filter<T1<R>>>;
template <typename R>
using FX6 = nl::filter::and_filter<T1<R>, nl::filter::not_filter<T2<R>>>;
template <typename R>
using FX7 = nl::filter::or_filter<nl::filter::not_filter<T1<R>>, nl::filter::and_filter<T2<R>, T3<R>>>;
template <typename R>
using FX8 = nl::filter::not_filter<nl::filter::or_filter<T1<R>, T2<R>>>;

// a user-written filter: the library must hand it the statement's record, tag included
template <typename R>
struct Untagged
{
    typedef R record_type;
    bool filter(R& r) const
    {
        return r.tag().empty();
    }
};
template <typename R>
using FX9 = nl::filter::and_filter<T1<R>, Untagged<R>>;

using Seq3 = nl::sink::sequence<RecSink<1>, RecSink<2>, RecSink<3>>;
using Seq2 = nl::sink::sequence<RecSink<1>, RecSink<2>>;
using One = RecSink<1>;

using L1 = nl::logger<Record, RecFormatter, Seq3, FX1>;
using L2 = nl::logger<Record, RecFormatter, Seq3, FX2>;
using L3 = nl::logger<Record, RecFormatter, Seq3, FX3>;
using L4 = nl::logger<Record, RecFormatter, One, FX4>;
using L5 = nl::logger<Record, RecFormatter, Seq2, FX5>;
using L6 = nl::logger<Record, RecFormatter, One, FX6>;
using L7 = nl::logger<Record, RecFormatter, Seq2, FX7>;
using L8 = nl::logger<Record, RecFormatter, One, FX8>;
using L9 = nl::logger<Record, RecFormatter, One, FX9>;

template <typename L, int Sev>
struct Make;
#define MAKE(N, NAME)                                                                                                  \
    template <typename L>                                                                                              \
    struct Make<L, N>                                                                                                  \
    {                                                                                                                  \
        static auto go(nitro::lang::string_ref t)                                                                      \
        {                                                                                                              \
            return L::NAME(t);                                                                                         \
        }                                                                                                              \
    };
MAKE(0, trace)
MAKE(1, debug)
MAKE(2, info)
MAKE(3, warn)
MAKE(4, error)
MAKE(5, fatal)

static const char* TAG = "tg";
static nitro::lang::string_ref tagref(long tag)
{
    return tag ? nitro::lang::string_ref(TAG) : nitro::lang::string_ref(nullptr);
}

struct Callable
{
    std::string text;
    std::string operator()() const
    {
        ++g_calls;
        return text;
    }
};

static std::string g_fp_text;
static std::string fp_callable()
{
    ++g_calls;
    return g_fp_text;
}

struct Items
{
    const J& a;
    std::string S(std::size_t k) const
    {
        return a[k]["v"].str();
    }
    long I(std::size_t k) const
    {
        return static_cast<long>(a[k]["v"].num());
    }
    Callable C(std::size_t k) const
    {
        return Callable{ a[k]["v"].str() };
    }
};

template <typename L, int Sev>
static bool is_null()
{
    return std::is_same<decltype(Make<L, Sev>::go(nullptr)), nl::detail::null_stream>::value;
}

template <typename L, int Sev>
static void expr_stmt(long tag, const J& items)
{
    std::string shape;
    for (auto& it : items.a)
        shape += it["t"].str();
    Items x{ items };
#define S(k) x.S(k)
#define I(k) x.I(k)
#define C(k) x.C(k)
#define SHAPE(name, chain)                                                                                             \
    if (shape == name)                                                                                                 \
    {                                                                                                                  \
        Make<L, Sev>::go(tagref(tag)) chain;                                                                           \
        return;                                                                                                        \
    }
#include "gen_log_shapes.inc"
#undef SHAPE
#undef S
#undef I
#undef C
    fprintf(stderr, "unsupported shape %s\n", shape.c_str());
    _exit(2);
}

struct HolderBase
{
    virtual ~HolderBase() = default;
    virtual void stream(const J& item) = 0;
    virtual std::unique_ptr<HolderBase> moved() = 0; // move-constructs a new stream object from this one
};

template <typename L, int Sev>
struct Holder : HolderBase
{
    decltype(Make<L, Sev>::go(nullptr)) s;
    using Stream = decltype(Make<L, Sev>::go(nullptr));
    // the tag of a statement is what the tag text was when the statement was made: the text handed in here lives in a
    // buffer that is overwritten (and later freed) while the named stream object is still being filled
    explicit Holder(long tag) : s(make_with_volatile_tag(tag))
    {
    }
    static Stream make_with_volatile_tag(long tag)
    {
        if (!tag)
            return Make<L, Sev>::go(nitro::lang::string_ref(nullptr));
        auto buf = std::make_unique<std::string>(TAG);
        Stream st = Make<L, Sev>::go(nitro::lang::string_ref(*buf));
        buf->assign(buf->size(), 'z');
        return st; // buf dies here
    }
    explicit Holder(Stream&& other) : s(std::move(other))
    {
    }
    std::unique_ptr<HolderBase> moved() override
    {
        return std::unique_ptr<HolderBase>(new Holder(std::move(s)));
    }
    void stream(const J& item) override
    {
        const std::string t = item["t"].str();
        if (t == "s")
        {
            std::string v = item["v"].str();
            s << v;
        }
        else if (t == "i")
        {
            long v = static_cast<long>(item["v"].num());
            s << v;
        }
        else if (t == "f")
        {
            // every kind of callable that yields a string is evaluated lazily: std::function ...
            std::string text = item["v"].str();
            std::function<std::string()> f = [text]() {
                ++g_calls;
                return text;
            };
            s << f;
        }
        else if (t == "n")
        {
            // ... a free function passed by name (a function, not a pointer variable)
            g_fp_text = item["v"].str();
            s << fp_callable;
        }
        else if (t == "p")
        {
            // ... and a plain function pointer
            g_fp_text = item["v"].str();
            std::string (*fp)() = &fp_callable;
            s << fp;
        }
        else
        {
            Callable c{ item["v"].str() };
            s << c;
        }
    }
};

template <typename L>
struct Prog
{
    std::vector<std::unique_ptr<HolderBase>> slots;

    template <int Sev>
    void begin(std::size_t k, long tag)
    {
        slots[k] = std::make_unique<Holder<L, Sev>>(tag);
    }

    J step(const J& st)
    {
        const std::string op = st["op"].str();
        std::size_t f0 = g_fmt.size(), s0 = g_sinks.size();
        long c0 = g_calls;
        std::string kind;
        if (op == "SetThr")
        {
            auto v = static_cast<nl::severity_level>(st["v"].num());
            switch (st["i"].num())
            {
            case 1:
                T1<Record>::set_severity(v);
                break;
            case 2:
                T2<Record>::set_severity(v);
                break;
            default:
                T3<Record>::set_severity(v);
                break;
            }
        }
        else if (op == "Expr" || op == "Begin")
        {
            long sev = st["sev"].num(), tag = st["tag"].num();
            bool named = op == "Begin";
            std::size_t k = named ? static_cast<std::size_t>(st["slot"].num()) - 1 : 0;
            if (named && slots.size() <= k)
                slots.resize(k + 1);
#define SEV(N)                                                                                                         \
    case N:                                                                                                            \
        kind = is_null<L, N>() ? "null" : "smart";                                                                     \
        if (named)                                                                                                     \
            begin<N>(k, tag);                                                                                          \
        else                                                                                                           \
            expr_stmt<L, N>(tag, st["items"]);                                                                         \
        break;
            switch (sev)
            {
                SEV(0) SEV(1) SEV(2) SEV(3) SEV(4) SEV(5)
            }
#undef SEV
        }
        else if (op == "Stream")
        {
            slots[static_cast<std::size_t>(st["slot"].num()) - 1]->stream(st["item"]);
        }
        else if (op == "End")
        {
            slots[static_cast<std::size_t>(st["slot"].num()) - 1].reset();
        }
        else if (op == "Move")
        {
            std::size_t from = static_cast<std::size_t>(st["slot"].num()) - 1, to = static_cast<std::size_t>(st["to"].num()) - 1;
            if (slots.size() <= to)
                slots.resize(to + 1);
            slots[to] = slots[from]->moved();
            slots[from].reset(); // the moved-from stream object is destroyed: it must not log
        }
        J o = J::obj();
        o.set("kind", kind);
        J fmt = J::arr();
        for (std::size_t i = f0; i < g_fmt.size(); i++)
            fmt.push(J(g_fmt[i]));
        J sinks = J::arr();
        for (std::size_t i = s0; i < g_sinks.size(); i++)
            sinks.push(J::obj().set("sink", J(g_sinks[i].sink)).set("sev", J(g_sinks[i].sev)).set("rec", J(g_sinks[i].rec)));
        o.set("fmt", fmt).set("sinks", sinks).set("called", J(g_calls - c0));
        return o;
    }

    J run(const J& steps)
    {
        J out = J::arr();
        for (std::size_t k = 0; k < steps.size(); k++)
        {
            J o = step(steps[k]);
            vh::note_step(o);
            out.push(o);
        }
        // whatever is still alive ends now, in reverse creation order of the slots
        std::size_t f0 = g_fmt.size();
        for (std::size_t k = slots.size(); k-- > 0;)
            slots[k].reset();
        J o = J::obj();
        o.set("steps", out);
        o.set("late", J(static_cast<long>(g_fmt.size() - f0)));
        return o;
    }
};

#define STR2(x) #x
#define STR(x) STR2(x)

static J run(const J& c)
{
    T1<Record>::set_severity(nl::severity_level::trace);
    T2<Record>::set_severity(nl::severity_level::trace);
    T3<Record>::set_severity(nl::severity_level::trace);
    g_sinks.clear();
    g_fmt.clear();
    g_calls = 0;
    J o;
    switch (c["fx"].num())
    {
    case 1:
        o = Prog<L1>().run(c["steps"]);
        break;
    case 2:
        o = Prog<L2>().run(c["steps"]);
        break;
    case 3:
        o = Prog<L3>().run(c["steps"]);
        break;
    case 4:
        o = Prog<L4>().run(c["steps"]);
        break;
    case 5:
        o = Prog<L5>().run(c["steps"]);
        break;
    case 6:
        o = Prog<L6>().run(c["steps"]);
        break;
    case 7:
        o = Prog<L7>().run(c["steps"]);
        break;
    case 8:
        o = Prog<L8>().run(c["steps"]);
        break;
    default:
        o = Prog<L9>().run(c["steps"]);
        break;
    }
    o.set("outcome", "ok");
    o.set("min", STR(NITRO_LOG_MIN_SEVERITY));
    return o;
}

int main(int argc, char** argv)
{
    return vh::run_cases(argc, argv, run, 10);
}
