// Conformance driver for the declaration API of nitro::options::parser (C13).
// case: {"steps":[{"op":"Group","args":[g]} | {"op":"Declare","args":[kind,g,name]} | {"op":"ShortName","args":[id,s]} |
//                 {"op":"Env","args":[id,e]} | {"op":"Metavar","args":[id,m]} | {"op":"MoveParser"} | {"op":"TryParse"}]}
// The parser lives on the heap; MoveParser move-constructs a new parser and really destroys the old one, so a stale
// back-reference is a use-after-free (ASan) rather than luck.  Object identity is the address of the returned object.
#include <common/vh.hpp>

#include <nitro/options/parser.hpp>

#include <memory>

using vh::J;
namespace no = nitro::options;

struct Obj
{
    std::string kind, grp, name;
    no::base* ptr;
};

struct World
{
    std::unique_ptr<no::parser> p;
    std::vector<Obj> objs;
    std::vector<std::string> groups;

    no::group& grp(const std::string& g)
    {
        return g.empty() ? p->group() : p->group(g);
    }

    J project()
    {
        J a = J::arr();
        for (auto& o : objs)
        {
            J x = J::obj();
            x.set("kind", o.kind).set("grp", o.grp).set("name", o.ptr->name());
            x.set("letter", o.ptr->has_short_name() ? o.ptr->short_name() : std::string());
            x.set("env", o.ptr->has_env() ? o.ptr->env() : std::string());
            x.set("meta", o.ptr->metavar());
            a.push(x);
        }
        J gs = J::arr();
        for (auto& g : groups)
            gs.push(J(g));
        return J::obj().set("objs", a).set("groups", gs);
    }

    long find(no::base* ptr)
    {
        for (std::size_t i = 0; i < objs.size(); i++)
            if (objs[i].ptr == ptr)
                return static_cast<long>(i) + 1;
        return 0;
    }

    // every spelled name / letter must reach exactly the option that declares it
    std::string resolves()
    {
        for (auto& o : objs)
        {
            for (int form = 0; form < 2; form++)
            {
                if (form == 1 && !o.ptr->has_short_name())
                    continue;
                std::string tok = form == 0 ? "--" + o.ptr->name() : "-" + o.ptr->short_name();
                if (o.kind != "toggle")
                    tok += "=v";
                std::vector<const char*> argv = { "prog", tok.c_str() };
                // the other value-taking options must not complain about being required
                std::vector<std::string> keep;
                for (auto& q : objs)
                    if (&q != &o && q.kind != "toggle")
                        keep.push_back("--" + q.ptr->name() + "=w");
                for (auto& k : keep)
                    argv.push_back(k.c_str());
                try
                {
                    auto args = p->parse(static_cast<int>(argv.size()), argv.data());
                    bool ok = o.kind == "opt" ? args.get(o.ptr->name()) == "v" :
                              o.kind == "multi" ? (args.count(o.ptr->name()) == 1 && args.get(o.ptr->name(), 0) == "v") :
                                                  args.given(o.ptr->name()) == 1;
                    if (!ok)
                        return tok + " did not reach " + o.ptr->name();
                    for (auto& q : objs)
                        if (&q != &o && q.kind == "toggle" && args.given(q.ptr->name()) != 0)
                            return tok + " also reached " + q.ptr->name();
                }
                catch (const std::exception& e)
                {
                    return tok + " raised " + e.what();
                }
            }
        }
        return "";
    }
};

static J run(const J& c)
{
    World w;
    w.p = std::make_unique<no::parser>("prog", "about");
    J out = J::arr();
    const J& steps = c["steps"];
    for (std::size_t s = 0; s < steps.size(); s++)
    {
        const std::string op = steps[s]["op"].str();
        const J& a = steps[s]["args"];
        J r = J::obj();
        long id = 0;
        try
        {
            if (op == "Group")
            {
                std::string g = a[0].str();
                w.p->group(g, "a group");
                bool known = false;
                for (auto& x : w.groups)
                    known = known || x == g;
                if (!known)
                    w.groups.push_back(g);
            }
            else if (op == "Declare")
            {
                std::string kind = a[0].str(), g = a[1].str(), name = a[2].str();
                no::base* ptr = nullptr;
                if (kind == "opt")
                    ptr = &w.grp(g).option(name, "an option").optional();
                else if (kind == "multi")
                    ptr = &w.grp(g).multi_option(name, "a multi option").optional();
                else
                    ptr = &w.grp(g).toggle(name, "a toggle");
                id = w.find(ptr);
                if (!id)
                {
                    w.objs.push_back({ kind, g, name, ptr });
                    id = static_cast<long>(w.objs.size());
                    r.set("fresh", J(true));
                }
                else
                    r.set("fresh", J(false));
            }
            else if (op == "ShortName" || op == "Env" || op == "Metavar")
            {
                Obj& o = w.objs.at(static_cast<std::size_t>(a[0].num()) - 1);
                std::string v = a[1].str();
                no::base* ret = nullptr;
#define APPLY(T)                                                                                                       \
    {                                                                                                                  \
        T* x = static_cast<T*>(o.ptr);                                                                                 \
        ret = op == "ShortName" ? static_cast<no::base*>(&x->short_name(v)) :                                          \
              op == "Env"       ? static_cast<no::base*>(&x->env(v)) :                                                  \
                                  static_cast<no::base*>(&x->metavar(v));                                              \
    }
                if (o.kind == "opt")
                    APPLY(no::option)
                else if (o.kind == "multi")
                    APPLY(no::multi_option)
                else
                    APPLY(no::toggle)
                id = w.find(ret);
            }
            else if (op == "MoveParser")
            {
                auto p2 = std::make_unique<no::parser>(std::move(*w.p));
                w.p.reset(); // the moved-from parser is gone for good
                w.p = std::move(p2);
            }
            else if (op == "MoveAssignParser")
            {
                auto p2 = std::make_unique<no::parser>("other", "another parser", "its group");
                p2->toggle("leftover", "declared in the target before the assignment");
                *p2 = std::move(*w.p);
                w.p.reset(); // the moved-from parser is gone for good
                w.p = std::move(p2);
            }
            else if (op == "TryParse")
            {
                const char* argv[] = { "prog" };
                w.p->parse(1, argv);
                std::string res = w.resolves();
                r.set("resolves", res);
            }
            r.set("out", "ok");
        }
        catch (const no::parser_error& e)
        {
            r.set("out", "parser_error");
            r.set("what", e.what());
        }
        catch (const no::parsing_error& e)
        {
            r.set("out", "parsing_error");
            r.set("what", e.what());
        }
        catch (const std::exception& e)
        {
            r.set("out", "std_exception");
            r.set("what", e.what());
        }
        r.set("id", J(id));
        r.set("state", w.project());
        vh::note_step(r);
        out.push(r);
    }
    return J::obj().set("outcome", "ok").set("steps", out);
}

int main(int argc, char** argv)
{
    return vh::run_cases(argc, argv, run, 10);
}
